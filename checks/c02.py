# C02 -- every asynchronous operation completes exactly once (DESIGN 5/C02)
import random, re
from vlib import *
from c02_opkinds import run_opkinds

KEY_LATE = "aio-late-abort-result"


def gen_case(rng):
    n = rng.choice([1, 1, 2, 3])
    lines = ["alloc a%d" % k for k in range(n)]
    tmo = {k: -2 for k in range(n)}       # nng_aio_alloc: NNG_DURATION_DEFAULT
    stopped = {}
    vnow, deadlines = 0, []      # virtual clock of the script and every deadline an operation may have got
    for _ in range(rng.randrange(4, 45)):
        k = rng.randrange(n)
        r = rng.random()
        if k in stopped and (r < 0.22 or r >= 0.94 or 0.66 <= r < 0.74):
            # a stopped aio may be offered one more operation (it fails with NNG_ESTOPPED);
            # a further start is a programming error that the debug build asserts on
            if stopped[k] >= 1:
                continue
            stopped[k] += 1
        if r < 0.22:
            lines.append("begin a%d%s" % (k, " r" if rng.random() < 0.5 else ""))
            if tmo[k] > 0:
                deadlines.append(vnow + tmo[k])
        elif r < 0.40:
            lines.append("finish a%d %d" % (k, rng.choice([0, 0, 0, 19, 7])))
        elif r < 0.50:
            lines.append("cancel a%d" % k)
        elif r < 0.56:
            lines.append("abort a%d %d" % (k, rng.choice([7, 19, 5])))
        elif r < 0.66:
            q = rng.random()
            if q < 0.60:
                t = rng.choice([-1, -1, 0, 1000, 5000, -2])
                tmo[k] = t
                lines.append("tmo a%d %d" % (k, t))
            elif q < 0.90:
                # an absolute expiry (nng_aio_set_expire), relative to the clock of that instant: already past,
                # before / after the relative timeout
                d = rng.choice([-50, 300, 700, 2000, 8000])
                lines.append("expire a%d %d" % (k, d))
                if d > 0:
                    deadlines.append(vnow + d)
            elif q < 0.95:
                lines.append("expnever a%d" % k)
            else:
                d = rng.choice([1000, 5000, -1])
                lines.append("norm a%d %d" % (k, d))     # nni_aio_normalize_timeout: only a DEFAULT timeout changes
                if tmo[k] == -2:
                    tmo[k] = d
        elif r < 0.74:
            # (a sleep whose effective duration is 0 ends after ~1 ms of real time, which the virtual
            #  clock does not control: not generated)
            if tmo[k] == 0:
                continue
            ms = rng.choice([1000, 1000, 3000, -1])
            lines.append("sleep a%d %d" % (k, ms))
            for d in (ms, tmo[k]):
                if d > 0:
                    deadlines.append(vnow + d)
        elif r < 0.90:
            # never land within 150 ms of a deadline (the virtual clock runs on top of real time: at equality the
            # outcome depends on the milliseconds the script itself took)
            ok = [d for d in (400, 1200, 2500, 4000, 6000) if all(abs(vnow + d - dl) >= 150 for dl in deadlines)]
            if not ok:
                continue
            d = rng.choice(ok)
            vnow += d
            lines.append("advance %d" % d)
        elif r < 0.94:
            lines.append("stop a%d" % k)
            stopped.setdefault(k, 0)
        else:
            lines.append("begin a%d" % k)
            if tmo[k] > 0:
                deadlines.append(vnow + tmo[k])
    return lines + drain(n)


def drain(n):
    # complete whatever is still outstanding: infinite sleeps need a cancel, provider operations a finish
    l = []
    for k in range(n):
        l += ["cancel a%d" % k, "finish a%d 0" % k]
    return l + ["advance 20000"]


OBSL = re.compile(r"^(\S+)(?: NOT-QUIESCENT)? cb=(\S+) owns=(\S+)$")


def oracle(case, out):
    """exactly once / result / stop clauses on the implementation's own observations"""
    sub, cbn, pending_fin, stopped = {}, {}, {}, set()
    last_begin_ok = {}
    vnow, tmo, deadline, abort5 = 0, {}, {}, set()
    INF = float("inf")
    kind, retire_on_cb = {}, set()
    absx = {}      # aio -> (absolute expiry pending for the next operation | INF, set while an operation was in flight?)
    for i, line in enumerate(case):
        t = line.split()
        m = OBSL.match(out[i]) if i < len(out) else None
        if not m:
            return (i, "no/odd observation %r" % (out[i] if i < len(out) else None))
        if "NOT-QUIESCENT" in out[i]:
            return (i, "library did not become quiescent")
        pfx, cbs, owns = m.groups()
        k = int(t[1][1:]) if len(t) > 1 and t[1].startswith("a") else None
        if t[0] == "advance":
            vnow += int(t[1])
        if t[0] == "alloc":
            tmo[k] = -2
        if t[0] == "tmo" and pfx == "ok":
            tmo[k] = int(t[2])
            absx.pop(k, None)
        if t[0] == "norm" and pfx == "ok" and tmo.get(k, -1) == -2:
            tmo[k] = int(t[2])
        if t[0] in ("expire", "expnever") and pfx == "ok":
            # Core/AioDeadline.sp_step: applies to the next operation started on the aio (unless a timeout is set,
            # or an operation is started or completed, in between).  Set while an operation is in flight, whether it
            # survives depends on how that operation ends: then both readings are allowed below.
            inflight = sub.get(k, 0) != cbn.get(k, 0)
            absx[k] = (INF if t[0] == "expnever" else vnow + int(t[2]), inflight and kind.get(k) == "sleep")
            if inflight and kind.get(k) == "begin":
                retire_on_cb.add(k)        # a provider operation always ends in nni_aio_finish: that retires the expiry
        if t[0] == "abort" and int(t[2]) == 5:
            abort5.add(k)
        if t[0] in ("begin", "sleep") and pfx != "busy" and pfx != "noaio":
            # the deadline of this operation on the virtual clock (None: never)
            d = tmo.get(k, -1)
            if t[0] == "sleep":
                ms = int(t[2])
                d = ms if (d < 0 or (0 <= ms < d)) else d
            rel = INF if d < 0 else vnow + d
            if k in absx and t[0] == "begin":
                a_t, unsure = absx[k]
                rel = min(a_t, rel) if unsure else a_t
            absx.pop(k, None)
            retire_on_cb.discard(k)
            kind[k] = t[0]
            deadline[k] = None if rel == INF else rel
            sub[k] = sub.get(k, 0) + 1
            if t[0] == "begin":
                last_begin_ok[k] = pfx == "started=1"
                if k in stopped and pfx == "started=1":
                    return (i, "operation accepted on a stopped aio")
        if t[0] == "finish" and pfx == "ok":
            pending_fin[k] = int(t[2])
        if t[0] == "stop":
            stopped.add(k)
        if cbs != "-":
            for x in cbs.split(","):
                a, rv = x.split(":")
                a = int(a[1:]); rv = int(rv)
                cbn[a] = cbn.get(a, 0) + 1
                if a in retire_on_cb:
                    retire_on_cb.discard(a)
                    absx.pop(a, None)
                if cbn[a] > sub.get(a, 0):
                    return (i, "callback ran more often than operations were started (a%d)" % a)
                if a in pending_fin:
                    exp = pending_fin.pop(a)
                    if rv != exp:
                        return (i, "LATE:callback of a%d read %d, the operation had completed with %d" % (a, rv, exp))
                if rv == 5 and a in abort5:
                    abort5.discard(a)       # an abort with the code NNG_ETIMEDOUT accounts for one such result
                elif rv == 5 and (deadline.get(a) is None or vnow < deadline[a]):
                    return (i, "a%d: timeout reported at %d ms, deadline %s" % (a, vnow, deadline.get(a)))
        if t[0] == "stop":
            # everything submitted on that aio before has had its callback when stop returns
            if cbn.get(k, 0) != sub.get(k, 0):
                return (i, "nng_aio_stop returned with an operation of a%d not completed" % k)
    nalloc = len([l for l in case if l.startswith("alloc ")])
    drained = case[-(2 * nalloc + 1):] == drain(nalloc)
    for k in sub:
        if drained and cbn.get(k, 0) != sub[k]:
            return (len(case) - 1, "a%d: %d operations started, %d callbacks after everything was completed" % (k, sub[k], cbn.get(k, 0)))
    return None


def run(tier, seed, replay=None):
    rep = Report("C02", tier, seed)
    ok, msg = gen_consts("c02")
    cb = coq_build("Properties_C02")
    gate = coq_gate()
    rep.proof_cov(cb, "make -C coq Props/Properties_C02.vo && coqc Props/Properties_C02.v (Print Assumptions) ; grep gate")
    proof_ok = ok and cb["ok"] and not gate
    model_build("aio")
    bdir, err = nng_build("asan")
    if bdir is None:
        p = rep.replay_file("build_failed.txt", err)
        rep.violation(p, "nng does not build", nofail=True)
        return rep.finish()
    impl, err = wb_build(bdir, "wb_aio.c")
    if impl is None:
        p = rep.replay_file("wb_aio_build.txt", err)
        rep.violation(p, "aio driver does not build against the current tree (hooks H2/H2q/H4 missing?)", nofail=True)
        return rep.finish()
    model = model_bin("modeld_aio")
    rng = random.Random(seed)
    # ---- 1. scripted, sequential: implementation vs model vs oracle
    n = 150 if tier == "quick" else 4000
    if replay and os.path.basename(replay).startswith("opkinds_"):
        cases = []          # a scenario of checks/c02_opkinds.py: replayed there
    elif replay:
        cases = [[l.strip() for l in open(replay) if l.strip() and not l.startswith("#")]]
    else:
        cases = load_corpus("C02") + [gen_case(rng) for _ in range(n)]
    diverged = []
    unconfirmed = []
    late_seen = 0
    for b0 in range(0, len(cases), 100):
        batch = cases[b0:b0 + 100]
        iout, crash = run_cases(impl, batch, timeout=600)
        mout, _ = run_cases(model, batch, timeout=600)
        if crash:
            ci, rc, errtxt = crash
            p = rep.replay_file("crash_%d.case" % (b0 + ci), "# implementation crashed (rc=%s)\n# %s\n" % (rc, errtxt.replace("\n", "\n# ")) + "\n".join(batch[ci]) + "\n")
            rep.violation(p, "aio driver crashed / sanitizer report (rc=%s): %s" % (rc, san_summary(errtxt)))
            continue
        for ci, case in enumerate(batch):
            rep.cov["evaluations"] += len(case)
            bad = oracle(case, iout[ci])
            if bad:
                k, text = bad
                if text.startswith("LATE:"):
                    late_seen += 1
                    p = rep.replay_file("late_abort_%d.case" % (b0 + ci), "# %s at op %d\n" % (text[5:], k) + "\n".join(case) + "\n")
                    rep.violation(p, text[5:], key=KEY_LATE)
                else:
                    # the virtual clock runs on top of real time: on a loaded machine the milliseconds a script itself
                    # takes can push an operation over a deadline that is several hundred virtual ms away.  A failure
                    # that the code causes repeats; one that the machine causes does not: confirm by two re-runs.
                    again = [oracle(case, run_cases(impl, [case])[0][0]) for _ in range(2)]
                    if not all(again):
                        unconfirmed.append("case %d: %s (not reproduced in %d of 2 re-runs)" % (b0 + ci, text, sum(1 for a in again if not a)))
                        continue
                    small = ddmin(case, lambda c: oracle(c, run_cases(impl, [c])[0][0]) is not None, max_iter=80)
                    p = rep.replay_file("spec_%d.case" % (b0 + ci), "# %s at op %d (%s)\n" % (text, k, case[k]) + "\n".join(small) + "\n")
                    rep.violation(p, "aio: %s (op %d: %s)" % (text, k, case[k]))
                    continue
            for k, line in enumerate(case):
                io = iout[ci][k] if k < len(iout[ci]) else None
                mo = mout[ci][k] if k < len(mout[ci]) else None
                if io != mo:
                    diverged.append((b0 + ci, k, line, io, mo))
                    break
    if diverged and not rep.violations:
        ci, k, line, io, mo = diverged[0]
        p = rep.replay_file("diverge_%d.case" % ci, "# model and implementation differ at op %d: %s\n# impl : %s\n# model: %s\n" % (k, line, io, mo) + "\n".join(cases[ci]) + "\n")
        rep.violation(p, "correspondence AioModel<->aio.c broken on %d scripted cases; first: op %r impl=%r model=%r" % (len(diverged), line, io, mo), nofail=True)
    # ---- 2. concurrent stress with the H2 trace: step conformance + monitors
    nstress = 3 if tier == "quick" else 40
    tot_rec = tot_race = tot_sub = tot_bad = 0
    kinds = {}
    for i in range(nstress):
        sd = seed * 1000 + i
        rc, out, errtxt = run_prog(impl, "stress %d %d %d %d\n" % (sd, 300 if tier == "quick" else 1500, 4 + i % 5, 4 + i % 4), timeout=300)
        if rc != 0 or "stress-done" not in out[-1:]:
            p = rep.replay_file("stress_crash_%d.txt" % sd, "stress %d\n%s" % (sd, errtxt[-4000:]))
            rep.violation(p, "aio stress run crashed or hung (rc=%s): %s" % (rc, san_summary(errtxt)))
            continue
        for l in out:
            if l.startswith("S "):
                m = re.match(r"S a(\d+) sub=(\d+) cb=(\d+) bad=(\d+) busy=(\d+)", l)
                a, s_, c_, b_, busy = map(int, m.groups())
                tot_sub += s_
                tot_bad += b_
                if s_ != c_ or busy:
                    p = rep.replay_file("stress_count_%d.txt" % sd, "stress %d %s\n" % (sd, l))
                    rep.violation(p, "stress seed %d: aio %d had %d operations started and %d callbacks (busy=%d) after everything completed" % (sd, a, s_, c_, busy))
        rc2, o2, e2 = run_prog(model, "\n".join(l for l in out if l.startswith("T ")) + "\n", args=["--replay"], timeout=300)
        m = re.search(r"replayed=(\d+) mismatches=(\d+) unlocked_reset_races=(\d+) kinds=(\S+)", o2[-1] if o2 else "")
        if not m:
            p = rep.replay_file("replay_fail_%d.txt" % sd, "\n".join(o2[-20:]) + e2[-2000:])
            rep.violation(p, "trace replay failed", nofail=True)
            continue
        tot_rec += int(m.group(1)); tot_race += int(m.group(3))
        for kv in m.group(4).split(","):
            a, b = kv.split(":"); kinds[a] = kinds.get(a, 0) + int(b)
        if int(m.group(2)) > 0:
            mm = [l for l in o2 if l.startswith("MISMATCH")]
            ctx = []
            m0 = re.match(r"MISMATCH seq=(\d+) aio=(\d+)", mm[0]) if mm else None
            if m0:
                # the records of that aio around the mismatch (T seq kind aio flags result arg)
                tl = [l for l in out if l.startswith("T ") and l.split()[3] == m0.group(2)]
                idx = next((i for i, l in enumerate(tl) if l.split()[1] == m0.group(1)), 0)
                ctx = ["# records of aio %s around seq %s:" % (m0.group(2), m0.group(1))] + tl[max(0, idx - 8):idx + 9]
            p = rep.replay_file("trace_mismatch_%d.txt" % sd, "\n".join(mm + ctx) + "\n")
            rep.violation(p, "H2 trace: %s critical sections of aio.c are not instances of the model's step functions (seed %d); first: %s" % (m.group(2), sd, [l for l in o2 if l.startswith("MISMATCH")][0][:300]), nofail=True)
    # ---- 3. the directed schedule of the early-timeout witness (AioProofs.early_timeout_run) on the real expire thread
    probe, err = wb_build(bdir, "probe_expire_batch.c")
    probe_out = None
    if probe is None:
        p = rep.replay_file("probe_build.txt", err)
        rep.violation(p, "expire-batch probe does not build", nofail=True)
    else:
        rc, out, errtxt = run_prog(probe, "", timeout=120)
        probe_out = out[-2:]
        m = [l for l in out if l.startswith("B op2 completed with")]
        if rc != 0:
            p = rep.replay_file("probe_crash.txt", "\n".join(out) + errtxt[-3000:])
            rep.violation(p, "expire-batch probe crashed (rc=%s): %s" % (rc, san_summary(errtxt)))
        elif m and " with 5 " in m[0]:
            p = rep.replay_file("early_timeout.txt", "harness/probe_expire_batch.c (schedule of AioProofs.early_timeout_run):\n" + "\n".join(out) + "\n")
            rep.violation(p, "timeout delivered long before the deadline: " + m[0])
    # ---- 4. directed: bursts beyond NNI_EXPIRE_BATCH (ExpireScan.rounds_mark_all_due) and nng_aio_free while the
    #         expire thread is inside the aio's cancel function (aio_stop_no_expire_reference)
    probe2, err = wb_build(bdir, "probe_aio_directed.c")
    directed_out = None
    if probe2 is None:
        p = rep.replay_file("probe2_build.txt", err)
        rep.violation(p, "directed aio probe does not build", nofail=True)
    else:
        bursts = [(rng.choice([40, 99, 100]), 20), (rng.choice([101, 150, 199, 200]), 20), (rng.choice([201, 260, 333]), 15)]
        if tier != "quick":
            bursts += [(n, 10) for n in (100, 101, 300, 450)]
        script = "".join("burst %d %d\n" % b for b in bursts) + "freeexp\n"
        rc, out, errtxt = run_prog(probe2, script, timeout=300)
        directed_out = out
        rep.cov["evaluations"] += len(bursts) + 1
        if rc != 0:
            p = rep.replay_file("directed_crash.txt", script + "\n".join(out) + errtxt[-3000:])
            rep.violation(p, "directed aio probe crashed (rc=%s): %s" % (rc, san_summary(errtxt)))
        else:
            for l in out:
                m = re.match(r"burst n=(\d+) ms=(\d+) completed=(\d+) ok=(\d+)", l)
                if m and (m.group(1) != m.group(3) or m.group(1) != m.group(4)):
                    p = rep.replay_file("burst_forgotten.txt", "harness/probe_aio_directed.c: echo 'burst %s %s' | probe_aio_directed\n%s\n" % (m.group(1), m.group(2), l))
                    rep.violation(p, "%s sleeps of %s ms started together: only %s completed (due operations beyond the expire batch are forgotten)" % (m.group(1), m.group(2), m.group(3)))
                m = re.match(r"freeexp .*cancel_still_running_at_return=(\d)", l)
                if m and m.group(1) != "0":
                    p = rep.replay_file("free_during_expiry.txt", "harness/probe_aio_directed.c: echo freeexp | probe_aio_directed\n%s\n" % l)
                    rep.violation(p, "nng_aio_free returned while the expire thread was still inside that aio's cancel function: " + l)
    if tot_bad > 0:
        p = rep.replay_file("late_abort_stress.txt", "under concurrent stress %d of %d callbacks read a result other than the one the operation completed with\n(an abort arriving between completion and callback overwrites a_result: nni_aio_abort with a_cancel_fn == NULL)\nreplay: echo 'stress %d 300 4 4' | wb_aio\n" % (tot_bad, tot_sub, seed * 1000))
        rep.violation(p, "callback read a result other than the completion's (%d of %d under stress)" % (tot_bad, tot_sub), key=KEY_LATE)
    rep.cov["opkinds"] = run_opkinds(rep, bdir, tier, seed, replay)   # real providers vs the provider contract (checks/c02_opkinds.py)
    if not proof_ok and not rep.violations:
        proof_broken_report(rep, cb, "C02 theorems do not check (%s)" % ("; ".join(gate[:3]) if gate else msg if not ok else "see log"))
    rep.cov.update({"distinct_nontrivial": len(set(hash(tuple(c)) for c in cases)),
                    "traces_validated_against_impl": nstress, "trace_records_replayed": tot_rec,
                    "trace_kind_histogram": kinds, "unlocked_reset_races_observed": tot_race,
                    "stress_operations": tot_sub, "stress_callbacks_with_foreign_result": tot_bad,
                    "expire_batch_probe": probe_out, "directed_probe": directed_out, "scripted_cases": len(cases), "scripted_divergences": len(diverged), "unconfirmed_observations": unconfirmed[:20],
                    "rule": "scripted: random sequences of begin/finish/cancel/abort/sleep/timeouts/advance(virtual clock)/stop on 1-3 aios with a test provider over the public provider API, implementation vs model line by line + oracle (exactly once, results, stop, no early timeout); stress: 4-8 threads of random concurrent operations on 4-7 aios with the H2 trace on, every logged critical section replayed through the extracted AioFw.fw_step, per-aio submission/callback counters",
                    "samples": [cases[0][:14]] if cases else [],
                    "observations": ["nni_aio_reset writes a_abort/a_result/a_expire_ok/a_sleep without eq_mtx and races with nni_aio_abort (counted as unlocked_reset_races, not a conformance failure)"]})
    rep.assumptions += ["mutual exclusion of eq_mtx/task_mtx and condition-variable semantics are trusted", "an absolute expiry is set between operations, not while one is in flight on the aio (nni_aio_set_expire writes the in-flight deadline field unlocked): the driver refuses such a call", "the test provider honours the provider contract (finish at most once per successful start)",
                        "prep+start of nni_aio_start are modelled as one step"]
    return rep.finish()
