# C02 -- the provider contract on REAL operation kinds (DESIGN 5/C02, 11.9).
#
# The C02 theorems are about AioModel, whose provider is well-behaved by construction; what that
# means on observations is the monitor Core/ProvContract.pc_step (theorems provider_contract_* and
# aio_model_histories_accepted in Properties_C02.v).  Here the REAL providers of /repo are run under
# disruption by harness/wb_opkinds.c (scenarios generated below from one PRNG seed), every user aio's
# event history (harness events + H2 trace records, totally ordered by the trace's sequence numbers)
# is fed to the extracted monitor (ocaml/drv_provc.ml), and an oracle checks what the monitor cannot:
# liveness (an operation whose completion the scenario guarantees did complete: "lost completion"),
# result plausibility (a timeout only after the configured duration; ESTOPPED / ECANCELED only if
# someone stopped / cancelled), and no crash / sanitizer report / hang.
#
# run_opkinds(rep, bdir, tier, seed) -> coverage dict; violations are reported through rep.
import concurrent.futures, os, random, re, shutil, subprocess, tempfile, time
from vlib import *

ESTOPPED, ECANCELED, ETIMEDOUT, ECLOSED = 999, 20, 5, 7
WAIT_MS = 6000          # bound for a guaranteed completion ("several seconds real time")

PEER = {"pair0": "pair0", "pair1": "pair1", "pair1poly": "pair1", "req": "rep", "rep": "req", "pub": "sub", "sub": "pub",
        "push": "pull", "pull": "push", "surveyor": "respondent", "respondent": "surveyor", "bus": "bus"}
HAS_CTX = {"req", "rep", "sub", "surveyor", "respondent"}
# a message sent by the connected peer (no prior state needed on our side) reaches a receive on these
DELIVERS = {"pair0", "pair1", "pull", "sub", "bus", "rep", "respondent"}
ALWAYS_COMPLETES_SEND = {"pub", "bus"}     # pub0_sock_send / bus0_sock_send finish unconditionally (read in the source)

PRE = ["none", "none", "none", "stop", "cancel", "tmo0", "tmo", "tmo", "expast", "exnear", "extmo"]
POST = ["none", "none", "cancel", "cancel", "abort", "stop", "stop", "close", "close", "peerclose"]
DELAYS = [0, 0, 100, 1000, 5000]


class Sc:
    """one scenario: command list + what the oracle needs to know"""

    def __init__(self, sid, kind):
        self.sid, self.kind = sid, kind
        self.cmds = []
        self.pre = self.post = "none"
        self.naio = 0
        self.base = {}        # aio -> 'q' | '1' | '0'   natural guarantee
        self.need = {}        # aio -> final await token
        self.cancellable = {} # aio -> bool
        self.resub = {}
        self.tmo_nat = set()  # aios on which NNG_ETIMEDOUT is a natural result (surveyor receive)
        self.peer_cmds = 0    # number of synchronous peer steps the natural guarantee depends on
        self.note = ""

    def line(self):
        return "%s %s" % (self.sid, " ; ".join(self.cmds))


def _url(rng, tr, tmpd, sid, n=0):
    if tr == "inproc":
        return "inproc://c02ops-%s-%d" % (sid, n)
    if tr == "ipc":
        return "ipc://%s/%s-%d.sock" % (tmpd, sid, n)
    if tr == "abstract":
        return "abstract://c02ops-%d-%s-%d" % (os.getpid(), sid, n)
    if tr == "tcp":
        return "tcp://127.0.0.1:0"
    if tr == "socket":
        return "socket://"
    raise ValueError(tr)


def _apply_pre(rng, sc, targets):
    pre = sc.pre
    sc.pre_T = None
    for a in targets:
        if pre == "stop":
            sc.cmds.append("stop a%d" % a)
        elif pre == "cancel":
            sc.cmds.append("cancel a%d" % a)
        elif pre == "tmo0":
            sc.cmds.append("tmo a%d 0" % a)
        elif pre == "tmo":
            sc.pre_T = sc.pre_T or rng.choice([1, 2, 5, 10, 25, 40])
            sc.cmds.append("tmo a%d %d" % (a, sc.pre_T))
        elif pre == "expast":
            sc.cmds.append("expire a%d %d" % (a, -rng.choice([1, 50, 1000])))
        elif pre == "exnear":
            sc.cmds.append("expire a%d %d" % (a, rng.choice([3, 8, 20])))
        elif pre == "extmo":
            # an absolute deadline replaced by a relative timeout before anything was started
            sc.pre_T = sc.pre_T or rng.choice([30, 60, 120])
            sc.cmds.append("expire a%d %d" % (a, rng.choice([-50, 5])))
            sc.cmds.append("tmo a%d %d" % (a, sc.pre_T))


def _apply_post(rng, sc, targets, close_cmds, peerclose_cmds):
    post = sc.post
    d = rng.choice(DELAYS)
    if post != "none" and d:
        sc.cmds.append("usleep %d" % d)
    if post == "cancel":
        sc.cmds += ["cancel a%d" % a for a in targets]
    elif post == "abort":
        code = rng.choice([7, 19, 5, 12])
        sc.cmds += ["abort a%d %d" % (a, code) for a in targets]
    elif post == "stop":
        sc.cmds += ["stop a%d" % a for a in targets]
    elif post == "close":
        sc.cmds += close_cmds
    elif post == "peerclose":
        sc.cmds += peerclose_cmds


def _needs(sc, pre_targets, post_targets, close_hits, peerclose_q=()):
    """await token per aio: 'q' (every submission completes and the chain ends), n (at least n callbacks), 0"""
    for a in range(sc.naio):
        tok = sc.base.get(a, "0")
        q = one = False
        canc = sc.cancellable.get(a, True)
        if a in pre_targets:
            if sc.pre == "stop":
                q = True
            elif sc.pre in ("tmo0", "tmo", "extmo") and canc:
                q = True
            elif sc.pre in ("expast", "exnear") and canc:
                one = True
        if a in post_targets:
            if sc.post == "stop":
                q = True
            elif sc.post in ("cancel", "abort") and canc:
                one = True
        if sc.post == "close" and a in close_hits:
            q = True
        if sc.post == "peerclose" and a in peerclose_q:
            q = True
        if q:
            tok = "q"
        elif one and tok == "0":
            tok = "1"
        sc.need[a] = tok


def _finish(rng, sc):
    toks = ",".join(sc.need.get(a, "0") for a in range(sc.naio))
    wait = WAIT_MS if any(t != "0" for t in sc.need.values()) else 1
    sc.cmds += ["await %s %d" % (toks, wait), "snap O1", "cleanup %s" % rng.choice(["close", "stop"])]
    return sc


def gen_sock(rng, sid, tmpd):
    proto = rng.choice(list(PEER))
    raw = 0 if proto == "pair1poly" else rng.choice([0, 0, 1])
    ctx = 1 if (proto in HAS_CTX and not raw and rng.random() < 0.5) else 0
    d = rng.choice(["send", "recv"])
    peer = rng.choice([None, "inproc", "inproc", "ipc", "tcp", "abstract"])
    sc = Sc(sid, "sock:%s%s:%s%s" % (proto, ":raw" if raw else "", ("ctx_" if ctx else "") + d, ":peer" if peer else ""))
    sc.cmds.append("sock s0 %s %d" % (proto, raw))
    if proto == "surveyor" and not raw:
        sc.cmds.append("setms s0 surveyor:survey-time %d" % rng.choice([30, 80, 1000]))
    if peer:
        sc.cmds += ["sock s1 %s 0" % PEER[proto], "listen s1 %s" % _url(rng, peer, tmpd, sid), "dial s0 @s1",
                    "waitpipes s0 1 3000", "waitpipes s1 1 3000"]
    if ctx:
        sc.cmds.append("ctx c0 s0")
        if proto == "sub":
            sc.cmds.append("csub c0")          # subscriptions are per context
    me = "c0" if ctx else "s0"
    ps, pr = ("pcsend", "pcrecv") if ctx else ("psend", "precv")
    base = "0"
    # protocol state machines: put our side into the state in which the operation is meaningful
    if not raw and d == "recv" and proto in ("req", "surveyor") and rng.random() < 0.75:
        sc.cmds.append("%s %s" % (ps, me))
        if peer and rng.random() < 0.7:
            # the peer answers: the receive has something to deliver
            sc.cmds += ["precv s1 1000", "psend s1"]
            sc.peer_cmds += 3
            base = "1"
    elif not raw and d == "send" and proto in ("rep", "respondent") and peer and rng.random() < 0.75:
        sc.cmds += ["psend s1", "%s %s 1000" % (pr, me)]
    elif d == "recv" and peer and proto in DELIVERS and rng.random() < 0.6:
        if proto == "sub" and raw:
            pass                    # a raw SUB has no subscription: nothing is delivered
        else:
            sc.cmds.append("psend s1")
            sc.peer_cmds += 1
            base = "1"
    if d == "send" and proto in ALWAYS_COMPLETES_SEND:
        base = "q"
    r = rng.choice([0, 0, 1, 2])
    sc.cmds += ["aio a0 %d" % r, "trace"]
    sc.naio, sc.resub[0], sc.base[0] = 1, r, base
    if proto == "surveyor" and not raw and d == "recv":
        sc.tmo_nat.add(0)
    sc.pre, sc.post = rng.choice(PRE), rng.choice(POST)
    if sc.post == "peerclose" and not peer:
        sc.post = "none"
    _apply_pre(rng, sc, [0])
    op = ("c" if ctx else "") + d
    sc.cmds.append("%s a0 %s%s" % (op, me, " %d" % rng.choice([0, 8, 300]) if d == "send" else ""))
    close_cmd = ["cclose c0"] if (ctx and rng.random() < 0.6) else ["close s0"]
    if ctx and close_cmd == ["close s0"]:
        close_cmd = ["cclose c0", "close s0"]     # nng_socket_close blocks while a context is open (documented)
    _apply_post(rng, sc, [0], close_cmd, ["close s1"])
    _needs(sc, {0}, {0}, {0})
    return _finish(rng, sc)


def gen_sleep(rng, sid, tmpd):
    sc = Sc(sid, "sleep")
    ms = rng.choice([0, 1, 3, 10, 30, -1, 2000])
    r = rng.choice([0, 1, 2])
    sc.cmds += ["aio a0 %d" % r, "trace"]
    sc.naio, sc.resub[0] = 1, r
    sc.base[0] = "q" if 0 <= ms <= 30 else "0"
    sc.pre, sc.post = rng.choice(PRE), rng.choice([p for p in POST if p not in ("close", "peerclose")])
    _apply_pre(rng, sc, [0])
    sc.cmds.append("sleep a0 %d" % ms)
    sc.sleep_ms = ms
    _apply_post(rng, sc, [0], [], [])
    # nng_sleep_aio sets its own deadline: an nng_aio_set_expire before it has no effect (a relative timeout has)
    _needs(sc, set() if sc.pre in ("expast", "exnear") else {0}, {0}, set())
    return _finish(rng, sc)


def gen_sdial(rng, sid, tmpd):
    tr = rng.choice(["tcp", "tcp", "tcp", "ipc", "abstract"])
    lst = rng.choice(["accept", "accept", "bgaccept", "listen", "none"])
    n = rng.choice([1, 2, 2, 3, 4])
    sc = Sc(sid, "sdial:%s:%s:n%d" % (tr, lst, n))
    if lst == "none":
        sc.cmds.append("sd d0 %s" % ("deadtcp" if tr == "tcp" else _url(rng, tr, tmpd, sid, 9)))
    else:
        sc.cmds += ["sl l0 %s" % _url(rng, tr, tmpd, sid), "sd d0 @l0"]
    r = rng.choice([0, 0, 1])
    nacc = n if lst == "accept" else 0
    for a in range(n):
        sc.cmds.append("aio a%d %d" % (a, r))
        sc.resub[a], sc.base[a] = r, "q"          # a local connect always comes to an end
    for a in range(n, n + nacc):
        sc.cmds.append("aio a%d 0" % a)
        sc.resub[a], sc.base[a] = 0, "0"
    sc.naio = n + nacc
    sc.cmds.append("trace")
    sc.pre, sc.post = rng.choice(PRE), rng.choice([p for p in POST if p != "peerclose"])
    which = rng.choice(["dials", "dials", "accepts"]) if nacc else "dials"
    pool = list(range(n)) if which == "dials" else list(range(n, n + nacc))
    tg = pool if rng.random() < 0.4 else [rng.choice(pool)]
    _apply_pre(rng, sc, tg)
    if lst == "bgaccept":
        sc.cmds.append("bgaccept l0 %d" % (n * (1 + r)))
    for a in range(n, n + nacc):
        sc.cmds.append("saccept a%d l0" % a)
    for a in range(n):
        sc.cmds.append("sdial a%d d0" % a)       # back to back on ONE dialer
    close_cmd = ["sdclose d0"] if (which == "dials" or lst == "none") else ["slclose l0"]
    _apply_post(rng, sc, tg, close_cmd, [])
    # accepts are owed a connection only if every dial goes through undisturbed
    dials_quiet = which == "accepts" or (sc.pre in ("none", "cancel") and sc.post == "none")
    if nacc and dials_quiet and not (sc.post == "close"):
        for a in range(n, n + nacc):
            sc.base[a] = "q"
    hits = set(range(n)) if close_cmd == ["sdclose d0"] else set(range(n, n + nacc))
    _needs(sc, set(tg), set(tg), hits)
    return _finish(rng, sc)


def gen_saccept(rng, sid, tmpd):
    tr = rng.choice(["tcp", "ipc", "abstract", "socket", "socket"])
    n = rng.choice([1, 2, 3])
    r = rng.choice([0, 0, 1])
    conns = rng.choice([0, 1, n * (1 + r), n * (1 + r) + 1])
    sc = Sc(sid, "saccept:%s:n%d:c%d" % (tr, n, conns))
    sc.cmds.append("sl l0 %s" % _url(rng, tr, tmpd, sid))
    if tr != "socket":
        sc.cmds.append("sd d0 @l0")
    for a in range(n):
        sc.cmds.append("aio a%d %d" % (a, r))
        sc.resub[a] = r
        sc.base[a] = "q" if conns >= n * (1 + r) else "0"
    sc.naio = n
    sc.cmds.append("trace")
    sc.pre, sc.post = rng.choice(PRE), rng.choice([p for p in POST if p != "peerclose"])
    tg = list(range(n)) if rng.random() < 0.4 else [rng.randrange(n)]
    _apply_pre(rng, sc, tg)
    early = rng.random() < 0.3
    push = ["sfdpush l0 %d" % conns] if tr == "socket" else ["bgdial d0 %d" % conns]
    if conns and early:
        sc.cmds += push                      # connections waiting before the accepts are posted
    for a in range(n):
        sc.cmds.append("saccept a%d l0" % a)
    if conns and not early:
        sc.cmds += push
    _apply_post(rng, sc, tg, ["slclose l0"], [])
    if sc.post == "close":
        for a in range(n):
            sc.base[a] = "0"                 # connections racing with the close: nothing is owed naturally
    _needs(sc, set(tg), set(tg), set(range(n)))
    return _finish(rng, sc)


def gen_sio(rng, sid, tmpd):
    tr = rng.choice(["tcp", "ipc", "abstract", "socket"])
    d = rng.choice(["send", "recv", "recv"])
    sc = Sc(sid, "sio:%s:%s" % (tr, d))
    sc.cmds.append("sl l0 %s" % _url(rng, tr, tmpd, sid))
    if tr == "socket":
        sc.cmds.append("sfdconn t0 t1 l0")
    else:
        sc.cmds += ["sd d0 @l0", "sconn t0 t1 d0 l0"]
    r = rng.choice([0, 0, 1, 2])
    sc.cmds += ["aio a0 %d" % r, "trace"]
    sc.naio, sc.resub[0] = 1, r
    ln = rng.choice([1, 64, 1000, 4000]) if d == "send" or rng.random() < 0.8 else 1 << 20
    sc.base[0] = "0"
    if d == "send":
        if rng.random() < 0.2:
            ln = 1 << 22                         # fills the kernel buffers: may block
        else:
            sc.base[0] = "q"
    elif rng.random() < 0.5:
        sc.cmds.append("stsend t1 %d" % rng.choice([1, ln, 3 * ln if ln < 100000 else ln]))
        sc.peer_cmds += 1
        sc.base[0] = "1"
    sc.pre, sc.post = rng.choice(PRE), rng.choice(POST)
    _apply_pre(rng, sc, [0])
    sc.cmds.append("s%s a0 t0 %d" % (d, ln))
    _apply_post(rng, sc, [0], ["stclose t0"], ["stclose t1"])
    _needs(sc, {0}, {0}, {0}, peerclose_q={0} if d == "recv" else ())
    return _finish(rng, sc)


def gen_dstart(rng, sid, tmpd):
    tr = rng.choice(["inproc", "inproc", "tcp", "ipc"])
    lst = rng.random() < 0.5
    sc = Sc(sid, "dstart:%s:%s" % (tr, "listener" if lst else "nolistener"))
    sc.cmds.append("sock s0 pair0 0")
    if lst:
        sc.cmds += ["sock s1 pair0 0", "listen s1 %s" % _url(rng, tr, tmpd, sid), "nd nd0 s0 @s1"]
    else:
        sc.cmds.append("nd nd0 s0 %s" % ("deadtcp" if tr == "tcp" else _url(rng, tr, tmpd, sid, 7)))
    r = rng.choice([0, 0, 1, 2])
    sc.cmds += ["aio a0 %d" % r, "trace"]
    sc.naio, sc.resub[0], sc.base[0] = 1, r, "q"
    sc.cancellable[0] = False                   # nni_dialer_start_aio starts the user aio without a cancel function
    sc.pre, sc.post = rng.choice(PRE + ["stop", "stop"]), rng.choice([p for p in POST if p != "peerclose"])
    _apply_pre(rng, sc, [0])
    sc.cmds.append("dstart a0 nd0")
    _apply_post(rng, sc, [0], [rng.choice(["ndclose nd0", "close s0"])], [])
    _needs(sc, {0}, {0}, {0})
    return _finish(rng, sc)


def gen_device(rng, sid, tmpd):
    pa, pb = rng.choice([("pair1", "pair1"), ("pair0", "pair0"), ("req", "rep"), ("bus", "bus"), ("push", "pull"), ("surveyor", "respondent")])
    sc = Sc(sid, "device:%s-%s" % (pa, pb))
    r = rng.choice([0, 0, 1])
    sc.cmds += ["sock s0 %s 1" % pa, "sock s1 %s 1" % pb, "aio a0 %d" % r, "trace"]
    sc.naio, sc.resub[0], sc.base[0] = 1, r, "0"
    sc.pre, sc.post = rng.choice(PRE), rng.choice([p for p in POST if p != "peerclose"])
    _apply_pre(rng, sc, [0])
    sc.cmds.append("device a0 s0 s1")
    _apply_post(rng, sc, [0], [rng.choice(["close s0", "close s1"])], [])
    _needs(sc, {0}, {0}, set())      # nng_socket_close of a socket held by a device is refused (NNG_EBUSY): nothing is owed
    return _finish(rng, sc)


GENS = [(gen_sock, 30), (gen_sleep, 6), (gen_sdial, 16), (gen_saccept, 10), (gen_sio, 14), (gen_dstart, 12), (gen_device, 6)]


def gen_scenarios(rng, n, tmpd, prefix="s"):
    gens = [g for g, w in GENS for _ in range(w)]
    return [rng.choice(gens)(rng, "%s%d" % (prefix, k), tmpd) for k in range(n)]


# ------------------------------------------------------------------ running
OP_ENV = {"ASAN_OPTIONS": "detect_leaks=0:abort_on_error=0:exitcode=99:allocator_may_return_null=1",
          "UBSAN_OPTIONS": "print_stacktrace=1:halt_on_error=1:exitcode=98"}


def run_group(binp, scs, timeout=None, watchdog_ms=None):
    """run scenarios in one child process; returns (per-scenario output dict, rc, stderr, last_begun_without_end)"""
    script = "".join(s.line() + "\n" for s in scs)
    timeout = timeout or (30 + 8 * len(scs))
    env = dict(os.environ, **OP_ENV)
    if watchdog_ms:
        env["WB_WATCHDOG_MS"] = str(watchdog_ms)
    try:
        p = subprocess.run([binp], input=script, capture_output=True, text=True, timeout=timeout, env=env)
        rc, out, err = p.returncode, p.stdout, p.stderr
    except subprocess.TimeoutExpired as ex:
        out = ex.stdout.decode(errors="replace") if isinstance(ex.stdout, bytes) else (ex.stdout or "")
        rc, err = -9, "TIMEOUT (python side)"
    per, cur, open_id = {}, None, None
    for l in out.splitlines():
        if l.startswith("BEGIN "):
            cur = l.split()[1]
            per[cur] = []
            open_id = cur
        elif l.startswith("END ") and cur is not None:
            per[cur].append(l)
            open_id = None
            cur = None
        elif cur is not None:
            per[cur].append(l)
    return per, rc, err, open_id


SNAP = re.compile(r"^(O1|O2|O3|OP|OH) a(\d+) sub=(\d+) cb=(\d+) done=(\d+) res=(\S+) t=(\S+)$")


def parse(lines):
    """-> dict: snaps[tag][aio] = (sub, cb, done, res list, [(tsub, tcb)]), events (merged, by seq), flags"""
    o = {"snaps": {}, "ev": [], "rv": [], "expire": {}, "setupfail": None, "end": False, "panic": None, "hang": None, "bad": []}
    for l in lines:
        m = SNAP.match(l)
        if m:
            tag, a, sub, cb, done, res, t = m.groups()
            rs = [] if res == "-" else [int(x) for x in res.split(",")]
            ts = [] if t == "-" else [tuple(int(y) for y in x.split(":")) for x in t.split(",")]
            o["snaps"].setdefault(tag, {})[int(a)] = (int(sub), int(cb), int(done), rs, ts)
        elif l.startswith("E "):
            _, seq, kind, idx, rv, t = l.split()
            o["ev"].append((int(seq), "E", int(kind), int(idx), int(rv), int(t)))
        elif l.startswith("T "):
            _, seq, kind, idx, flags, result, arg = l.split()
            o["ev"].append((int(seq), "T", int(kind), int(idx), flags, int(result), int(arg)))
        elif l.startswith("RV "):
            o["rv"].append(l)
        elif l.startswith("EXPIRE "):
            _, a, t = l.split()
            o["expire"].setdefault(int(a[1:]), []).append(int(t))
        elif l.startswith("SETUPFAIL"):
            o["setupfail"] = l
        elif l.startswith("END "):
            o["end"] = True
        elif l.startswith("panic: "):
            o["panicmsg"] = l[:200]
        elif l.startswith("PANIC "):
            o["panic"] = (o.get("panicmsg", "") + " " + l).strip()
        elif l.startswith("HANG "):
            o["hang"] = l
        elif l.startswith("BADCMD"):
            o["bad"].append(l)
    o["ev"].sort(key=lambda e: e[0])
    return o


def histories(o, naio):
    """per aio: the monitor's tokens, and the annotated list for the report"""
    hist = {a: [] for a in range(naio)}
    sleeping = {a: False for a in range(naio)}
    for e in o["ev"]:
        if e[1] == "E":
            _, _, kind, idx, rv, t = e
            if idx < 0 or idx not in hist:
                continue
            tok = {1: "S", 2: "C%d" % rv, 3: "D", 4: "U%d" % rv, 5: "U0", 6: "T"}.get(kind)
            if tok:
                hist[idx].append(tok)
        else:
            _, _, kind, idx, flags, result, arg = e
            if idx not in hist:
                continue
            tok = None
            if kind == 1:
                tok = "K"
            elif kind in (2, 3, 4):
                tok = "R%d" % result
            elif kind == 5:
                tok = "F%d" % arg
            elif kind in (7, 8, 9):
                tok = "X"
            elif kind == 10 and sleeping[idx]:
                tok = "F%d" % arg              # the expiry of a sleep completes it in place
            sleeping[idx] = flags[4] == "1"
            if tok:
                hist[idx].append(tok)
    return hist


def monitor(model, items):
    """items: list of (key, token list) -> dict key -> verdict line"""
    if not items:
        return {}
    script = "".join("H %s %s\n" % (k, " ".join(t)) for k, t in items)
    rc, out, err = run_prog(model, script, timeout=300)
    res = {}
    for l in out:
        w = l.split(" ", 2)
        if len(w) >= 3 and w[0] == "H":
            res[w[1]] = w[2]
    return res


def _resolve_cfg(sc):
    """the timeouts the script configures, per aio, in script order: list of ("tmo", T) / ("exp", None)"""
    cfgs = {}
    for c in sc.cmds:
        w = c.split()
        if w[0] == "tmo":
            cfgs.setdefault(int(w[1][1:]), []).append(("tmo", int(w[2])))
        elif w[0] == "expire":
            cfgs.setdefault(int(w[1][1:]), []).append(("exp", None))
    return cfgs


def check_scenario(sc, lines, model):
    o = parse(lines)
    hist = histories(o, sc.naio)
    verd = monitor(model, [("%s.a%d" % (sc.sid, a), hist[a]) for a in range(sc.naio)])
    return o, hist, verd, oracle_with_cfg(sc, o, hist, verd)


def oracle_with_cfg(sc, o, hist, verd):
    # resolve the "pending-tmo" configuration markers with the values of the script
    cfgs = _resolve_cfg(sc)
    pos = {a: 0 for a in cfgs}
    ev = []
    for e in o["ev"]:
        if e[1] == "E" and e[2] == 8 and e[3] in cfgs and pos[e[3]] < len(cfgs[e[3]]):
            kind, val = cfgs[e[3]][pos[e[3]]]
            pos[e[3]] += 1
            ev.append(e[:4] + ((1 if kind == "exp" else 0),) + e[5:] + ((kind, val),))
        else:
            ev.append(e)
    o = dict(o, ev=ev)
    return _oracle2(sc, o, hist, verd)


def _oracle2(sc, o, hist, verdicts):
    bad = []
    if o["panic"] or o["hang"]:
        return bad
    o1, o2, o3 = (o["snaps"].get(t, {}) for t in ("O1", "O2", "O3"))
    peer_failed = any(re.match(r"RV (psend|precv|pcsend|pcrecv|stsend|strecv|waitpipes) ", l) for l in o["rv"])
    ev = o["ev"]
    uev = [x for x in ev if x[1] == "E"]
    for a in range(sc.naio):
        v = verdicts.get("%s.a%d" % (sc.sid, a), "missing")
        if not v.startswith("ok"):
            bad.append(("monitor", "a%d: the history of this aio breaches the provider contract: %s ; history: %s" % (a, v, " ".join(hist[a]))))
        if a in o3:
            sub, cb, done, res, ts = o3[a]
            if not (sub == cb == done):
                bad.append(("count", "a%d: %d operations submitted, %d callbacks (%d returned) after every aio was stopped and every object closed" % (a, sub, cb, done)))
            if a in o2 and o2[a][1] != cb:
                bad.append(("late-callback", "a%d: %d callbacks when nng_aio_stop had returned, %d a moment later" % (a, o2[a][1], cb)))
        need = sc.need.get(a, "0")
        if sc.peer_cmds and peer_failed and sc.base.get(a) in ("1", "q") and need == sc.base.get(a):
            need = "0"
        if a in o1 and need != "0" and not o["setupfail"]:
            sub, cb, done, res, ts = o1[a]
            if need == "q":
                chain_ended = sub >= sc.resub.get(a, 0) + 1 or (len(res) > 0 and res[-1] == ESTOPPED)
                if not (sub >= 1 and done == sub and chain_ended):
                    bad.append(("lost", "a%d: lost completion: %d operations submitted, %d callbacks returned within %d ms although completion is guaranteed here (pre=%s post=%s, results so far %s)" % (a, sub, done, WAIT_MS, sc.pre, sc.post, res)))
            elif done < int(need):
                bad.append(("lost", "a%d: lost completion: %d operations submitted, %d callbacks returned within %d ms, at least %s guaranteed (pre=%s post=%s)" % (a, sub, done, WAIT_MS, need, sc.pre, sc.post)))
        exps = list(o["expire"].get(a, []))
        cfg, last_tmo = None, -1
        sub_t, k_cb = [], 0
        for e in uev:
            kind, idx, rv, t = e[2], e[3], e[4], e[5]
            if idx != a:
                continue
            if kind == 8:
                kv = e[6] if len(e) > 6 else None
                if kv and kv[0] == "exp":
                    cfg = ("exp", exps.pop(0) if exps else None)
                elif kv:
                    cfg = ("tmo", kv[1])
                    last_tmo = kv[1]
            elif kind == 1:
                sub_t.append((t, cfg, last_tmo))
            elif kind == 2:
                ts_, cf, lt = sub_t[k_cb] if k_cb < len(sub_t) else (t, None, -1)
                before = [x for x in uev if x[0] < e[0]]
                if rv == ESTOPPED and not any(x[2] in (5, 7) for x in before):
                    bad.append(("implausible", "a%d: NNG_ESTOPPED reported although nobody had stopped an aio or closed an object" % a))
                if rv == ECANCELED and not any(x[2] == 4 and x[4] == ECANCELED for x in before):
                    bad.append(("implausible", "a%d: NNG_ECANCELED reported although nobody had cancelled an operation" % a))
                if rv == ETIMEDOUT and a not in sc.tmo_nat and not any(x[2] == 4 and x[4] == ETIMEDOUT for x in before):
                    el = t - ts_
                    okk, why = False, "no timeout was configured on this aio"
                    if cf and cf[0] == "tmo":
                        okk = cf[1] == 0 or (cf[1] > 0 and el >= cf[1] - 1)
                        why = "configured timeout %d ms, reported after %d ms" % (cf[1], el)
                    elif cf and cf[0] == "exp":
                        okk = cf[1] is not None and t >= cf[1] - 1
                        why = "configured expiry at clock %s, reported at clock %d" % (cf[1], t)
                        if not okk and k_cb > 0 and lt >= 0:
                            okk = lt == 0 or el >= lt - 1
                    if not okk:
                        bad.append(("early-timeout", "a%d: NNG_ETIMEDOUT before the configured duration (%s; operation #%d on this aio)" % (a, why, k_cb + 1)))
                k_cb += 1
    return bad


LAST = {"o": None, "err": ""}     # parsed output / stderr of the last failing (re-)run, for finding_key


def run_one(binp, model, sc, burst=1):
    """one scenario alone in its own process -> (failures, text for the replay file).  burst > 1: the scenario
    repeated that many times in the one process, stopping at the first repetition that fails (a crash, panic or hang
    inside the library is a race: one re-run = one burst)"""
    if burst <= 1:
        per, rc, err, open_id = run_group(binp, [sc], timeout=60)
        lines = per.get(sc.sid, [])
        LAST["o"], LAST["err"] = parse(lines), err
        return verdict_of(sc, lines, rc, err, open_id == sc.sid, model), lines
    reps = []
    for k in range(burst):
        c = Sc("%s.%d" % (sc.sid, k), sc.kind)
        c.__dict__.update({k_: v for k_, v in sc.__dict__.items() if k_ != "sid"})
        reps.append(c)
    per, rc, err, open_id = run_group(binp, reps, timeout=60 + burst, watchdog_ms=7000)
    for c in reps:
        lines = per.get(c.sid)
        if lines is None:
            break
        bad = verdict_of(c, lines, rc, err, open_id == c.sid, model)
        if bad:
            LAST["o"], LAST["err"] = parse(lines), err
            return bad, lines
    return [], []


def verdict_of(sc, lines, rc, err, died_here, model):
    o, hist, verd, bad = check_scenario(sc, lines, model)
    if died_here or o["panic"] or o["hang"]:
        if o["hang"]:
            bad.append(("hang", "scenario did not finish (watchdog): %s" % o["hang"]))
        elif o["panic"] or rc in (96, -6):
            bad.append(("panic", "library panic / abort: %s %s" % (o["panic"] or "", san_summary(err))))
        else:
            stack = " ".join(re.findall(r" in (\w+) ", err or "")[:12])
            bad.append(("crash", "process ended inside the scenario (rc=%s): %s [%s]" % (rc, san_summary(err) or err[-200:], stack)))
        # what the monitor says about the history up to the crash
        for a in range(sc.naio):
            v = verd.get("%s.a%d" % (sc.sid, a), "")
            if v and not v.startswith("ok"):
                bad.append(("monitor", "a%d: history up to the crash breaches the provider contract: %s ; history: %s" % (a, v, " ".join(hist[a]))))
    return bad


def scenario_of_line(line):
    """a replay line (as written into out/C02/opkinds_*.case) back into a scenario; the oracle's knowledge
    is rebuilt from the line itself: only the await tokens are guarantees"""
    sid, rest = line.strip().split(" ", 1)
    sc = Sc(sid, "replay")
    sc.cmds = [c.strip() for c in rest.split(";") if c.strip()]
    for c in sc.cmds:
        w = c.split()
        if w[0] == "aio":
            a = int(w[1][1:])
            sc.naio = max(sc.naio, a + 1)
            sc.resub[a] = int(w[2])
        elif w[0] == "await":
            for a, t in enumerate(w[1].split(",")):
                sc.need[a] = t
                sc.base[a] = "0"
        elif w[0] == "setms" and "survey-time" in w[2]:
            sc.tmo_nat = set(range(12))
    return sc


def run_opkinds(rep, bdir, tier, seed, replay=None, budget_s=None):
    t0 = time.time()
    cov = {"scenarios": 0, "by_kind": {}, "by_kind_x_disruption": {}, "by_disruption": {}, "monitor": {"histories": 0, "accepted": 0, "breach": 0},
           "results": {}, "unconfirmed": [], "setup_failed": 0, "setup_failures": {}, "confirmed": [], "guaranteed_completions_checked": 0,
           "events": 0, "rule": "harness/wb_opkinds.c: real operation kinds x disruptions, per-aio histories (harness events + H2 trace) through the extracted Core/ProvContract.pc_step, plus liveness / plausibility oracle; a failure is reported only if it repeats on 2 re-runs of the scenario alone"}
    binp, err = wb_build(bdir, "wb_opkinds.c")
    if binp is None:
        p = rep.replay_file("wb_opkinds_build.txt", err)
        rep.violation(p, "operation-kind driver does not build against the current tree", nofail=True)
        return cov
    try:
        model = model_bin("modeld_provc")
        srcs = [os.path.join(COQ, "Core", "ProvContract.v"), os.path.join(COQ, "extract.d", "c02-provc.txt"),
                os.path.join(OCAML, "drv_provc.ml"), os.path.join(OCAML, "conv.ml")]
        # (the monitor depends on nothing but the standard library: no need to wait for the Coq build lock
        #  when the extracted binary is newer than its four sources)
        if not os.path.exists(model) or any(os.path.getmtime(x) > os.path.getmtime(model) for x in srcs):
            model_build("provc")
    except Exception as ex:
        p = rep.replay_file("provc_build.txt", str(ex))
        rep.violation(p, "provider-contract monitor (Core/ProvContract.v) does not extract/build", nofail=True)
        return cov
    model = model_bin("modeld_provc")
    tmpd = tempfile.mkdtemp(prefix="c02ops-", dir="/tmp")
    if replay:
        # ./check C02 --replay out/C02/opkinds_<id>.case : that scenario alone (other replay files are not ours)
        try:
            lines = [l for l in open(replay) if l.strip() and not l.startswith("#")]
            if not os.path.basename(replay).startswith("opkinds_") or not lines:
                return dict(cov, skipped="replay file is not an operation-kind scenario")
            sc = scenario_of_line(lines[0])
            os.makedirs(tmpd, exist_ok=True)
            made = [m.group(1) for m in re.finditer(r"ipc://(/tmp/c02ops-[^/\s]+)/", lines[0]) if not os.path.exists(m.group(1))]
            for d in made:
                os.makedirs(d, exist_ok=True)
            bad, out = run_one(binp, model, sc)
            if not bad:
                # races inside the library do not show on every run: the scenario again, 40 times in one process
                bad, out = run_one(binp, model, sc, burst=40)
                cov["replay_burst"] = 40
            for d in made:
                shutil.rmtree(d, ignore_errors=True)
            cov["scenarios"] = 1
            if bad:
                txt = "; ".join(t for _, t in bad[:3])
                p = rep.replay_file("opkinds_%s.case" % sc.sid, "# %s\n%s\n#\n# %s\n" % (txt, sc.line(), "\n# ".join(out[-120:])))
                rep.violation(p, "operation-kind scenario %s: %s" % (sc.sid, txt), key=finding_key(sc, bad, LAST["o"], LAST["err"]))
            return cov
        finally:
            shutil.rmtree(tmpd, ignore_errors=True)
    try:
        seeds = [seed] if tier == "quick" else [seed * 7919 + i for i in range(10)]
        nsc = 1200 if tier == "quick" else 2500
        budget = budget_s or (45 if tier == "quick" else 600)
        failures = []
        for sd in seeds:
            rng = random.Random(sd * 1000003 + 17)
            scs = gen_scenarios(rng, nsc, tmpd, prefix="g%d_" % (sd % 100000))
            groups = [scs[i:i + 26] for i in range(0, len(scs), 26)]
            if sd == seeds[0]:
                groups.insert(0, corpus_scenarios(tmpd))      # the directed scenarios, in a process of their own
                groups.insert(1, race_scenarios())
                race_ids = set(x.sid for x in groups[1])
            workers = 4
            with concurrent.futures.ThreadPoolExecutor(workers) as ex:
                futs = {}
                for g in groups:
                    futs[ex.submit(run_group, binp, g, None, 5000 if g[0].sid.startswith("c7_") else 12000)] = g
                for f in concurrent.futures.as_completed(futs):
                    g = futs[f]
                    per, rc, err, open_id = f.result()
                    failures += judge_group(g, per, rc, err, open_id, model, cov, binp, rerun_rest=not g[0].sid.startswith("c7_"))
            if time.time() - t0 > budget:
                cov["stopped_early"] = "time budget (%d s) reached after seed %d" % (budget, sd)
                break
        failures.sort(key=lambda f: 0 if f[0].sid.startswith("c") else 1)      # the directed scenarios first
        # ---- confirmation: a failing scenario must fail again, alone, twice
        seen, keyed = set(), set()
        for sc, bad, lines in failures:
            # a failure with the exact signature of a finding that has been confirmed in this run already is the
            # same finding again (racy findings cost two bursts of re-runs each)
            k0 = finding_key(sc, bad, parse(lines), "nni_aio_expire_loop" if any("nni_aio_expire_loop" in t for _, t in bad) else "")
            if k0 is not None and k0 in keyed:
                cov["same_signature_as_confirmed"] = cov.get("same_signature_as_confirmed", 0) + 1
                continue
            key = (sc.kind, sc.pre, sc.post, bad[0][0])
            if key in seen:
                cov["duplicates_of_confirmed"] = cov.get("duplicates_of_confirmed", 0) + 1
                continue
            again = []
            racy = bool(set(c for c, _ in bad) & {"crash", "panic", "hang", "early-timeout"})
            for _ in range(2):
                b2, l2 = run_one(binp, model, sc, burst=40 if racy else 1)
                again.append((b2, l2))
                if not b2:
                    break
            if len(again) == 2 and all(b for b, _ in again):
                seen.add(key)
                b2, l2 = again[-1]
                cls = sorted(set(c for c, _ in b2))
                txt = "; ".join(t for _, t in b2[:3])
                body = "# C02 operation kinds: %s (pre=%s post=%s)\n# %s\n# replay: echo '<line below>' | %s\n%s\n#\n# --- observed (re-run) ---\n# %s\n" % (
                    sc.kind, sc.pre, sc.post, txt.replace("\n", " "), binp, sc.line(), "\n# ".join(l2[-120:]))
                p = rep.replay_file("opkinds_%s.case" % sc.sid, body)
                fkey = finding_key(sc, b2, LAST["o"], LAST["err"])
                rep.violation(p, "operation kind %s, disruption %s/%s: %s" % (sc.kind, sc.pre, sc.post, txt), key=fkey)
                cov["confirmed"].append({"scenario": sc.sid, "kind": sc.kind, "pre": sc.pre, "post": sc.post, "classes": cls, "finding_key": fkey})
                if fkey is not None:
                    keyed.add(fkey)
            else:
                cov["unconfirmed"].append({"scenario": sc.sid, "kind": sc.kind, "pre": sc.pre, "post": sc.post, "first": [t for _, t in bad[:2]],
                                           "reruns_failed": sum(1 for b, _ in again if b)})
    finally:
        shutil.rmtree(tmpd, ignore_errors=True)
    cov["wall_s"] = round(time.time() - t0, 1)
    rep.cov["evaluations"] += cov["scenarios"]
    return cov


KEY_TCP_REDIAL = "tcp-dial-cancel-redial"     # findings/c02/tcp-dial-cancel-redial.txt (repaired: 4a41e21)
KEY_STREAM_CLOSED = "stream-op-after-close-hangs"   # findings/c02/stream-op-after-close-hangs.txt (repaired: 9729760)
KEY_EXPIRE_FREE = "expire-cancel-after-object-free"  # findings/c02/expire-cancel-after-object-free.txt
KEY_STALE_CANCEL = "expire-stale-cancel-early-timeout"  # findings/c02/expire-stale-cancel-early-timeout.txt


def expire_cancel_in_flight(o):
    """signature of finding expire-cancel-after-object-free in the (partial) trace: for some user aio the expire
    loop has taken the cancel function of a non-sleeping operation (record kind 10) and the matching
    a_expiring := false (kind 11) never came - the expire thread was still inside that cancel call when the
    process hung / died."""
    last10, last11, sleeping = {}, {}, {}
    for e in o["ev"]:
        if e[1] != "T":
            continue
        seq, kind, idx, flags = e[0], e[2], e[3], e[4]
        if kind == 10 and not sleeping.get(idx, False):
            last10[idx] = seq
        elif kind == 11:
            last11[idx] = seq
        sleeping[idx] = flags[4] == "1"
    return any(last10[a] > last11.get(a, -1) for a in last10)


def stale_cancel_ops(o, a):
    """signature of finding expire-stale-cancel-early-timeout: the operation numbers (1-based, per submission) of aio a
    that were STARTED while a_expiring was still set for the previous operation's expiry (START_OK record with the
    expiring flag on) and completed with NNG_ETIMEDOUT through a finish that is not preceded, within the operation, by
    an expiry of its own (no kind-15/10 record between its start and that finish)."""
    res, n, started_exp, own_expiry = set(), 0, False, False
    for e in o["ev"]:
        if e[1] == "E":
            if e[2] == 1 and e[3] == a:
                n += 1
                started_exp, own_expiry = False, False
            continue
        seq, kind, idx, flags, result, arg = e[0], e[2], e[3], e[4], e[5], e[6]
        if idx != a:
            continue
        if kind == 1:
            started_exp = flags[2] == "1"
        elif kind in (15, 10):
            own_expiry = True
        elif kind == 5 and arg == ETIMEDOUT and started_exp and not own_expiry and n >= 2:
            res.add(n)
    return res


def finding_key(sc, bad, o=None, err=""):
    """findings of the unmodified tree have a key (findings/c02/<key>.txt, findings/known_findings.txt).  A key is
    attached only to the exact signature of its finding; everything else stays a plain violation."""
    classes = set(c for c, _ in bad)
    if classes & {"monitor", "count", "lost", "late-callback", "implausible"}:
        return None
    disrupted = any(c.split()[0] in ("cancel", "abort", "stop", "tmo", "expire", "sdclose") for c in sc.cmds)
    tcpdial = sc.kind.startswith("sdial:tcp") or (sc.kind == "replay" and any(c.startswith("sdial ") for c in sc.cmds) and any("tcp://" in c for c in sc.cmds))
    # tcp-dial-cancel-redial (repaired 4a41e21): the assertion / use-after-free in the dialer's internal aios
    if tcpdial and disrupted and classes & {"panic", "crash"} and \
            any("a_cancel_fn == NULL" in t or "tcp_dial" in t or "nni_tcp_dial" in (err or "") for _, t in bad):
        return KEY_TCP_REDIAL
    # expire-cancel-after-object-free: the expire thread is inside a cancel call (trace), a timeout was configured and
    # an object was being closed; or the sanitizer report itself names the expire loop
    timed = any(c.split()[0] in ("tmo", "expire") for c in sc.cmds)
    closing = any(c.split()[0] in ("close", "cclose", "stclose", "sdclose", "slclose", "cleanup") for c in sc.cmds)
    if timed and closing and classes <= {"hang", "panic", "crash"} and classes:
        if (o is not None and expire_cancel_in_flight(o)) or ("nni_aio_expire_loop" in (err or "")):
            return KEY_EXPIRE_FREE
    # expire-stale-cancel-early-timeout: every early timeout is on an operation started under a stale expiry
    if classes == {"early-timeout"} and timed and o is not None:
        ok = True
        for _, t in bad:
            m = re.match(r"a(\d+): .*operation #(\d+) on this aio", t)
            if not m or int(m.group(2)) not in stale_cancel_ops(o, int(m.group(1))):
                ok = False
        if ok:
            return KEY_STALE_CANCEL
    return None


def corpus_scenarios(tmpd):
    """directed scenarios that always run first (each is what a generated one could be)"""
    out = []

    def mk(sid, kind, pre, post, cmds, naio, need, resub=None, base=None, canc=None):
        sc = Sc(sid, kind)
        sc.pre, sc.post, sc.cmds, sc.naio = pre, post, cmds, naio
        sc.need = dict(enumerate(need))
        sc.base = dict(enumerate(base or need))
        sc.resub = dict(enumerate(resub or [0] * naio))
        if canc is not None:
            sc.cancellable = dict(enumerate(canc))
        out.append(sc)

    # nng_dialer_start_aio on a stopped aio: one submission, one completion (NNG_ESTOPPED)
    mk("c1", "dstart:inproc:nolistener", "stop", "none",
       ["sock s0 pair0 0", "nd nd0 s0 inproc://c02ops-c1", "aio a0 0", "trace", "stop a0", "dstart a0 nd0", "await q 6000", "snap O1", "cleanup close"], 1, ["q"], canc=[False])
    mk("c2", "dstart:tcp:nolistener", "stop", "none",
       ["sock s0 pair0 0", "nd nd0 s0 deadtcp", "aio a0 0", "trace", "stop a0", "dstart a0 nd0", "await q 6000", "snap O1", "cleanup stop"], 1, ["q"], canc=[False])
    # back-to-back dials on ONE stream dialer against a listener with accepts outstanding
    for k, tr in enumerate(["tcp", "ipc"]):
        url = "tcp://127.0.0.1:0" if tr == "tcp" else "ipc://%s/c3-%d.sock" % (tmpd, k)
        for n in (2, 4):
            cmds = ["sl l0 %s" % url, "sd d0 @l0"] + ["aio a%d 0" % a for a in range(2 * n)] + ["trace"]
            cmds += ["saccept a%d l0" % a for a in range(n, 2 * n)] + ["sdial a%d d0" % a for a in range(n)]
            cmds += ["await %s 6000" % ",".join(["q"] * (2 * n)), "snap O1", "cleanup stop"]
            mk("c3%s%d" % (tr, n), "sdial:%s:accept:n%d" % (tr, n), "none", "none", cmds, 2 * n, ["q"] * (2 * n))
    # ... and with only the kernel's backlog accepting
    mk("c4", "sdial:tcp:listen:n3", "none", "none",
       ["sl l0 tcp://127.0.0.1:0", "sd d0 @l0", "aio a0 1", "aio a1 0", "aio a2 0", "trace", "sdial a0 d0", "sdial a1 d0", "sdial a2 d0", "await q,q,q 6000", "snap O1", "cleanup close"],
       3, ["q", "q", "q"], resub=[1, 0, 0])
    # a dial cancelled while it resolves/connects, re-submitted from inside its callback, cancelled again ... (finding
    # tcp-dial-cancel-redial; after a repair this is an ordinary scenario)
    c5 = ["sl l0 tcp://127.0.0.1:0", "sd d0 @l0", "aio a0 12", "trace", "sdial a0 d0"]
    for i in range(12):
        c5 += ["cancel a0", "usleep %d" % [50, 150, 400][i % 3]]
    mk("c5", "sdial:tcp:accept:n1", "none", "cancel", c5 + ["await 1 6000", "snap O1", "cleanup stop"], 1, ["1"], resub=[12])
    # send / receive on a stream that has been closed before (finding stream-op-after-close-hangs)
    for tr, setup in (("tcp", ["sl l0 tcp://127.0.0.1:0", "sd d0 @l0", "sconn t0 t1 d0 l0"]),
                      ("ipc", ["sl l0 ipc://%s/c6.sock" % tmpd, "sd d0 @l0", "sconn t0 t1 d0 l0"]),
                      ("socket", ["sl l0 socket://", "sfdconn t0 t1 l0"])):
        mk("c6%s" % tr, "sio:%s:closed" % tr, "none", "close",
           setup + ["aio a0 1", "aio a1 1", "trace", "stclose t0", "srecv a0 t0 64", "ssend a1 t0 64", "await q,q 4000", "snap O1", "cleanup stop"],
           2, ["q", "q"], resub=[1, 1])
    return out


def race_scenarios():
    """a timeout expiring while the socket is being closed (finding expire-cancel-after-object-free), 40 times"""
    out = []
    for k in range(40):
        sc = Sc("c7_%d" % k, "sock:req:raw:recv:peer")
        sc.pre, sc.post, sc.naio = "tmo", "close", 1
        sc.cmds = ["sock s0 req 1", "sock s1 rep 0", "listen s1 inproc://c02ops-c7-%d" % k, "dial s0 @s1", "waitpipes s0 1 3000", "waitpipes s1 1 3000",
                   "aio a0 2", "trace", "tmo a0 2", "recv a0 s0", "usleep %d" % [1000, 1500, 2000, 500][k % 4], "close s0", "await q 6000", "snap O1", "cleanup close"]
        sc.need, sc.base, sc.resub = {0: "q"}, {0: "0"}, {0: 2}
        out.append(sc)
    return out


def judge_group(g, per, rc, err, open_id, model, cov, binp, rerun_rest=True):
    """oracle over one group's output; returns [(scenario, failures, lines)]"""
    fails = []
    items, parsed = [], {}
    for sc in g:
        lines = per.get(sc.sid)
        if lines is None:
            continue
        o = parse(lines)
        hist = histories(o, sc.naio)
        parsed[sc.sid] = (o, hist, lines)
        items += [("%s.a%d" % (sc.sid, a), hist[a]) for a in range(sc.naio)]
    verd = monitor(model, items)
    for sc in g:
        if sc.sid not in parsed:
            continue
        o, hist, lines = parsed[sc.sid]
        cov["scenarios"] += 1
        cov["events"] += len(o["ev"])
        fam = sc.kind
        cov["by_kind"][fam] = cov["by_kind"].get(fam, 0) + 1
        dk = "%s/%s" % (sc.pre, sc.post)
        cov["by_disruption"][dk] = cov["by_disruption"].get(dk, 0) + 1
        kd = "%s | %s" % (fam.split(":")[0] + ":" + ":".join(fam.split(":")[1:3]), dk)
        cov["by_kind_x_disruption"][kd] = cov["by_kind_x_disruption"].get(kd, 0) + 1
        if o["setupfail"]:
            cov["setup_failed"] += 1
            k = re.sub(r"\S*c02ops\S*", "<addr>", o["setupfail"])[:100]
            cov["setup_failures"][k] = cov["setup_failures"].get(k, 0) + 1
        for a in range(sc.naio):
            v = verd.get("%s.a%d" % (sc.sid, a), "missing")
            cov["monitor"]["histories"] += 1
            cov["monitor"]["accepted" if v.startswith("ok") else "breach"] += 1
            if sc.need.get(a, "0") != "0":
                cov["guaranteed_completions_checked"] += 1
        for a, s in o["snaps"].get("O3", {}).items():
            for r in s[3]:
                cov["results"][str(r)] = cov["results"].get(str(r), 0) + 1
        died = open_id == sc.sid
        bad = oracle_with_cfg(sc, o, hist, verd)
        if died or o["panic"] or o["hang"]:
            bad = verdict_of(sc, lines, rc, err, True, model)
        if bad:
            fails.append((sc, bad, lines))
    # scenarios after a crash were never run: run the rest of the group again
    if open_id is not None and rerun_rest:
        ids = [s.sid for s in g]
        rest = g[ids.index(open_id) + 1:] if open_id in ids else []
        if rest:
            per2, rc2, err2, open2 = run_group(binp, rest, None, 12000)
            fails += judge_group(rest, per2, rc2, err2, open2, model, cov, binp)
    elif rc not in (0,) and not fails:
        # the process failed outside every scenario (start-up / shut-down)
        sc = g[-1]
        fails.append((sc, [("crash", "driver process failed outside a scenario (rc=%s): %s" % (rc, san_summary(err) or err[-200:]))], per.get(sc.sid, [])))
    return fails
