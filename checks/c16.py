# C16 -- WebSocket/HTTP codecs: segmentation-independent and rule-enforcing (DESIGN 5/C16)
import base64, hashlib, os, random, re
from concurrent.futures import ThreadPoolExecutor
from vlib import *

KNOWN_TEXT = {
    "ws-recvmax-counts-control": "ws_read_cb adds the payload of interleaved ping/pong/close frames to the size of the message being "
                                 "assembled when testing RECVMAXSZ: a message within the limit is refused (1009) if a control frame "
                                 "arrives between its fragments",
    "ws-dialer-recvmax-ignored": "ws_dialer_dial does not copy recvmax/fragsize into the connection: a WebSocket *client* "
                                 "delivers messages above NNG_OPT_RECVMAXSZ (and ignores NNG_OPT_WS_SENDMAXFRAME)",
    "http-wrbuf-clobbers-unread": "http_prepare formats the response head into conn->buf, the read buffer, overwriting "
                                  "received-but-unconsumed bytes: what follows a request in the same TCP segment is decoded "
                                  "or lost depending on how the request was split across reads",
    "http-status-atoi-lenient": "http_res_parse_line uses atoi: status lines whose code is not 3DIGIT (\"200x\", \"0200\", "
                                "\"+200\") are accepted",
    "http-req-header-nocolon-ignored": "nni_http_req_parse overwrites the result of http_parse_header: a request header "
                                       "line without ':' is dropped silently instead of failing the request",
}


def hx(b):
    return b.hex() if b else "-"


def unhx(s):
    return b"" if s == "-" else bytes.fromhex(s)


# ------------------------------------------------------------------ generators
def ws_frame(op, fin, payload, masked, key=None, lenenc=None, rsv=0, fake_len=None):
    b0 = (0x80 if fin else 0) | (rsv << 4) | op
    n = len(payload) if fake_len is None else fake_len
    if lenenc is None:
        lenenc = 7 if n < 126 else 16 if n < 65536 else 64
    if lenenc == 7:
        h = bytes([b0, (0x80 if masked else 0) | (n & 0x7f)])
    elif lenenc == 16:
        h = bytes([b0, (0x80 if masked else 0) | 126]) + (n & 0xffff).to_bytes(2, "big")
    else:
        h = bytes([b0, (0x80 if masked else 0) | 127]) + n.to_bytes(8, "big")
    if masked:
        key = key or bytes([0x11, 0x22, 0x33, 0x44])
        return h + key + bytes(p ^ key[i & 3] for i, p in enumerate(payload))
    return h + payload


LENS = [0, 1, 2, 3, 4, 5, 7, 8, 9, 15, 16, 17, 23, 24, 31, 32, 33, 47, 64, 100, 124, 125, 126, 127, 128, 200, 300]


def rbytes(rng, n):
    return bytes(rng.randrange(256) for _ in range(n))


def gen_ws_stream(rng, role, big=False):
    """a valid frame sequence for nng in the given role (frames masked iff nng is the server)"""
    masked = role == "s"
    out = []
    nmsg = rng.choice([1, 1, 2, 3])
    for _ in range(nmsg):
        nfr = rng.choice([1, 1, 2, 3, 4])
        for i in range(nfr):
            ln = rng.choice(LENS if not big else LENS + [65535, 65536, 70000])
            op = 2 if i == 0 else 0
            key = rbytes(rng, 4)
            out.append(ws_frame(op, i == nfr - 1, rbytes(rng, ln), masked, key))
            if rng.random() < 0.3:
                out.append(ws_frame(rng.choice([9, 10]), True, rbytes(rng, rng.choice([0, 1, 5, 125])), masked, rbytes(rng, 4)))
    if rng.random() < 0.8:
        out.append(ws_frame(8, True, rng.choice([b"", b"\x03\xe8", b"\x03\xe9bye"]), masked, rbytes(rng, 4)))
    return out


WS_MUT = ["unmasked", "rsv", "badop", "nonmin16", "nonmin64", "ping126", "pong126", "cont_nostart", "data_in_msg",
          "text", "maxframe", "recvmax", "close126", "nonfinal_ping"]


def mutate_ws(rng, role, frames, kind):
    """returns (frames, cfg overrides)"""
    masked = role == "s"
    k = rng.randrange(len(frames) + 1)
    cfg = {}
    key = rbytes(rng, 4)
    if kind == "unmasked":
        bad = ws_frame(2, True, rbytes(rng, rng.choice([0, 3, 130])), not masked, key)
    elif kind == "rsv":
        bad = ws_frame(2, True, rbytes(rng, 3), masked, key, rsv=rng.choice([1, 2, 4, 7]))
    elif kind == "badop":
        bad = ws_frame(rng.choice([3, 4, 5, 6, 7, 11, 12, 13, 14, 15]), True, rbytes(rng, rng.choice([0, 2])), masked, key)
    elif kind == "nonmin16":
        bad = ws_frame(2, True, rbytes(rng, rng.choice([0, 1, 125])), masked, key, lenenc=16)
    elif kind == "nonmin64":
        bad = ws_frame(2, True, rbytes(rng, rng.choice([0, 126, 300])), masked, key, lenenc=64)
    elif kind == "ping126":
        bad = ws_frame(9, True, rbytes(rng, 126), masked, key)
    elif kind == "pong126":
        bad = ws_frame(10, True, rbytes(rng, 130), masked, key)
    elif kind == "close126":
        bad = ws_frame(8, True, b"\x03\xe8" + rbytes(rng, 124), masked, key)
    elif kind == "nonfinal_ping":
        bad = ws_frame(9, False, rbytes(rng, 2), masked, key)
    elif kind == "cont_nostart":
        return [ws_frame(0, True, rbytes(rng, 4), masked, key)] + frames, cfg
    elif kind == "data_in_msg":
        return [ws_frame(2, False, rbytes(rng, 4), masked, key), ws_frame(2, True, rbytes(rng, 2), masked, key)] + frames, cfg
    elif kind == "text":
        bad = ws_frame(1, True, b"hello", masked, key)
        cfg["recvtext"] = rng.choice([0, 0, 1])
    elif kind == "maxframe":
        lim = rng.choice([1, 10, 125, 126, 200])
        cfg["maxframe"] = lim
        return [ws_frame(2, True, rbytes(rng, lim + rng.choice([0, 1])), masked, key)] + frames, cfg
    elif kind == "recvmax":
        lim = rng.choice([5, 10, 126, 250])
        cfg["recvmax"] = lim
        a = rng.randrange(lim + 1)
        return [ws_frame(2, False, rbytes(rng, a), masked, key),
                ws_frame(0, True, rbytes(rng, lim - a + rng.choice([0, 1])), masked, rbytes(rng, 4))] + frames, cfg
    return frames[:k] + [bad] + frames[k:], cfg


def ws_line(role, mode, stream, cuts=(), pre=0, hcuts=(), maxframe=1048576, recvmax=1048576, recvtext=0):
    return "ws %s %s %d %d %d %d %s %s %s" % (role, mode, maxframe, recvmax, recvtext, pre, hx(stream),
                                            ",".join(map(str, cuts)) or "-", ",".join(map(str, hcuts)) or "-")


def gen_ws_cases(rng, n, tier):
    cases = []
    # every cut position of small sequences
    for role in "sc":
        masked = role == "s"
        seq = [ws_frame(2, False, b"He", masked), ws_frame(9, True, b"p", masked), ws_frame(0, True, b"y", masked),
               ws_frame(8, True, b"", masked)]
        s = b"".join(seq)
        step = 1 if tier == "thorough" else 2
        for c in range(1, len(s), step):
            cases.append(("ws-cut", ws_line(role, "m", s, cuts=[c])))
        s2 = ws_frame(2, True, bytes(range(130)), masked)
        for c in ([1, 2, 3, 4, 5, 7, 8, 9, 100] if role == "s" else [1, 2, 3, 4, 5, 100]):
            cases.append(("ws-cut", ws_line(role, "m", s2 + ws_frame(8, True, b"", masked), cuts=[c])))
    while len(cases) < n:
        role = rng.choice("sc")
        mode = rng.choice("mms")
        frames = gen_ws_stream(rng, role, big=(rng.random() < 0.08))
        cfg = {}
        tag = "ws-valid"
        if rng.random() < 0.55:
            kind = rng.choice(WS_MUT)
            frames, cfg = mutate_ws(rng, role, frames, kind)
            tag = "ws-" + kind
        s = b"".join(frames)
        cuts = sorted(set(rng.randrange(1, max(2, min(len(s), 400))) for _ in range(rng.choice([0, 0, 1, 2, 3, 6]))))
        pre = 0
        if role == "c" and rng.random() < 0.25:
            pre = rng.randrange(1, min(len(s), 40) + 1)     # the server may talk right after its 101
        hcuts = sorted(set(rng.randrange(1, 150) for _ in range(rng.choice([0, 0, 1, 2]))))
        cases.append((tag, ws_line(role, mode, s, cuts, pre, hcuts, **cfg)))
    # the two recorded findings, each with its reproducer
    s = ws_frame(2, False, b"12345678", False) + ws_frame(0, True, b"12345678", False)
    cases.append(("ws-recvmax", ws_line("c", "m", s, recvmax=10)))
    s = ws_frame(2, True, b"Hey", True) + ws_frame(8, True, b"", True)
    cases.append(("ws-pre-server", ws_line("s", "m", s, pre=3, hcuts=[40])))
    cases.append(("ws-pre-server", ws_line("s", "m", s, pre=3)))
    return cases


def gen_send_cases(rng, n):
    cases = []
    for role in "sc":
        for mode in "ms":
            for fs, ln in [(4, 0), (4, 3), (4, 4), (4, 5), (4, 8), (4, 9), (1, 3), (0, 10), (125, 126), (126, 126), (126, 127),
                           (200, 125), (70000, 65535), (70000, 65536), (65536, 65537)]:
                cases.append(("wssend", "wssend %s %s %d %d %s" % (role, mode, fs, rng.choice([0, 0, 1]), hx(rbytes(rng, ln)))))
    while len(cases) < n:
        fs = rng.choice([1, 2, 3, 7, 16, 125, 126, 127, 1000])
        ln = rng.choice([0, 1, fs - 1, fs, fs + 1, 2 * fs, 2 * fs + 1, 3 * fs - 1, rng.randrange(0, 600)])
        cases.append(("wssend", "wssend %s %s %d %d %s" % (rng.choice("sc"), rng.choice("mms"), fs, rng.choice([0, 1]),
                                                          hx(rbytes(rng, max(ln, 0))))))
    return cases


def chunk_stream(rng, sizes, upper=None, ext=False, trailers=0):
    out = b""
    for sz in sizes + [0]:
        h = ("%x" % sz) if sz else rng.choice(["0", "00", "0"])
        if upper if upper is not None else rng.random() < 0.5:
            h = h.upper()
        if rng.random() < 0.2:
            h = "0" * rng.randrange(1, 4) + h
        out += h.encode()
        if ext and rng.random() < 0.5:
            out += b";" + bytes(rng.randrange(32, 127) for _ in range(rng.randrange(0, 8)))
        out += b"\r\n"
        if sz:
            out += rbytes(rng, sz) + b"\r\n"
    for _ in range(trailers):
        out += bytes(rng.choice(b"ABCxyz:- 09") for _ in range(rng.randrange(1, 10))) + b"\r\n"
    return out + b"\r\n"


def gen_chunk_cases(rng, n, tier):
    cases = []
    base = chunk_stream(random.Random(5), [4, 17], ext=True, trailers=1)
    for c in range(1, len(base), 1 if tier == "thorough" else 2):
        cases.append(("chunk-cut", "chunk 0 %s %d" % (hx(base), c)))
    # size overflow boundary: 16 hex digits are the largest size_t
    for h in ["ffffffffffffffff", "10000000000000000", "fffffffffffffffff", "0ffffffffffffffff", "fffffffffffffffe",
              "fffffffffffffffd", "1000000000000000", "7fffffffffffffff", "123456789abcdef01", "00000000000000000001"]:
        cases.append(("chunk-overflow", "chunk 0 %s -" % hx(h.encode() + b"\r\nab\r\n0\r\n\r\n")))
        cases.append(("chunk-overflow", "chunk 100 %s 3,9" % hx(h.encode() + b"\r\nab\r\n0\r\n\r\n")))
    for maxsz, sizes in [(10, [10]), (10, [11]), (10, [5, 5]), (10, [5, 6]), (10, [9, 1, 1]), (1, [1]), (1, [2]), (0, [300])]:
        cases.append(("chunk-max", "chunk %d %s -" % (maxsz, hx(chunk_stream(rng, sizes)))))
    while len(cases) < n:
        sizes = [rng.choice([1, 2, 3, 9, 10, 15, 16, 17, 31, 255, 256, 300]) for _ in range(rng.choice([0, 1, 1, 2, 3]))]
        s = bytearray(chunk_stream(rng, sizes, ext=rng.random() < 0.4, trailers=rng.choice([0, 0, 1, 2])))
        tag = "chunk-valid"
        r = rng.random()
        if r < 0.45:
            tag = "chunk-mutated"
            k = rng.randrange(len(s))
            m = rng.random()
            if m < 0.3:
                s[k] = rng.choice([0, 9, 10, 13, 32, 59, 71, 103, 127, 128, 255, rng.randrange(256)])
            elif m < 0.5:
                del s[k]
            elif m < 0.7:
                s.insert(k, rng.choice([10, 13, 32, 48, 65, 0x67]))
            elif m < 0.85:
                # break the CRLF after some chunk data
                i = bytes(s).find(b"\r\n", k)
                if i >= 0:
                    s[i] = rng.choice([10, 32, 13])
                    if rng.random() < 0.5 and i + 1 < len(s):
                        s[i + 1] = rng.choice([13, 88])
            else:
                s += rbytes(rng, rng.randrange(1, 6))
        maxsz = rng.choice([0, 0, 0, sum(sizes), max(sum(sizes) - 1, 1), 1000])
        cuts = sorted(set(rng.randrange(1, max(2, len(s))) for _ in range(rng.choice([0, 1, 2, 5, 12]))))
        cases.append((tag, "chunk %d %s %s" % (maxsz, hx(bytes(s)), ",".join(map(str, cuts)) or "-")))
    return cases


METHODS = [b"GET", b"POST", b"HEAD", b"OPTIONS", b"X" * 31, b"Y" * 40, b"get"]
URIS = [b"/", b"/a", b"/ab/c", b"/a_b-c~d/0", b"/x/y/z/index.html".replace(b".", b"_"), b"a", b"", b"/%zz", b"/%4", b"/a%"]
VERSIONS = [b"HTTP/1.1", b"HTTP/1.0", b"HTTP/0.9", b"HTTP/2", b"HTTP/3", b"HTTP/1.2", b"http/1.1", b"HTTP/1.1 ", b"HTTP", b""]
HNAMES = [b"Host", b"host", b"Foo", b"foo", b"FOO", b"X-Y", b"Content-Type", b"content-length", b"Content-Length", b"Bar", b"A b"]


def gen_headers(rng):
    out = []
    for _ in range(rng.choice([0, 1, 2, 3, 5])):
        v = bytes(rng.choice(b"abcXYZ019 ,;=/") for _ in range(rng.choice([0, 1, 3, 8, 30])))
        sep = rng.choice([b": ", b":", b":  ", b": \t"[:2], b" :"])
        out.append(rng.choice(HNAMES) + sep + v + rng.choice([b"", b" ", b"  "]))
    return out


def gen_head_cases(rng, n, tier):
    cases = []
    base = b"GET /ab/c HTTP/1.1\r\nHost: x\r\nFoo:  bar \r\nfoo: baz\r\n\r\nXY"
    for c in range(1, len(base), 1 if tier == "thorough" else 2):
        cases.append(("req-cut", "req %s %d" % (hx(base), c)))
    base = b"HTTP/1.1 404 Not Here\r\nX: y\r\nContent-Length: 12\r\n\r\nZ"
    for c in range(1, len(base), 1 if tier == "thorough" else 2):
        cases.append(("res-cut", "res %s %d" % (hx(base), c)))
    for st in [b"200", b"99", b"100", b"999", b"1000", b"0200", b"200x", b"+200", b"-200", b"2e2", b"", b"abc", b"20",
               b"4294967496", b"99999999999999999999", b"-4294967096"]:
        cases.append(("res-status", "res %s -" % hx(b"HTTP/1.1 " + st + b" OK\r\n\r\n")))
    for l in [b"GET /\r\n\r\n", b"GET\r\n\r\n", b"GET / HTTP/1.1 x\r\n\r\n", b" / HTTP/1.1\r\n\r\n", b"GET  HTTP/1.1\r\n\r\n",
              b"GET / HTTP/1.1\r\nNoColon\r\n\r\n", b"GET / HTTP/1.1\r\nA: b\rc\r\n\r\n", b"GET / HTTP/1.1\r\nA: b\x01\r\n\r\n",
              b"GET / HTTP/1.1\nA: b\n\n", b"GET / HTTP/1.1\r\r\n\r\n", b"\r\n", b"\n", b"GET / HTTP/1.1\r\n: v\r\n\r\n"]:
        cases.append(("req-literal", "req %s -" % hx(l)))
        cases.append(("req-literal", "req %s %s" % (hx(l), ",".join(map(str, range(1, len(l), 3))) or "-")))
    for l in [b"HTTP/1.1 200\r\n\r\n", b"HTTP/1.1\r\n\r\n", b"HTTP/1.1 200 OK\r\nNoColon\r\n\r\n", b"HTTP/9.9 200 OK\r\n\r\n",
              b"HTTP/1.1 200 OK\r\nA: b\rc\r\n\r\n", b"HTTP/1.1 200 OK\nA: b\n\n", b"\r\n"]:
        cases.append(("res-literal", "res %s -" % hx(l)))
        cases.append(("res-literal", "res %s %s" % (hx(l), ",".join(map(str, range(1, len(l), 3))) or "-")))
    while len(cases) < n:
        isreq = rng.random() < 0.55
        eol = b"\n" if rng.random() < 0.15 else b"\r\n"
        if isreq:
            start = rng.choice(METHODS) + b" " + rng.choice(URIS) + b" " + rng.choice(VERSIONS[:3] if rng.random() < 0.7 else VERSIONS)
        else:
            start = rng.choice(VERSIONS[:2] if rng.random() < 0.7 else VERSIONS) + b" " + rng.choice([b"200", b"101", b"404", b"500", b"99", b"1000"]) \
                + b" " + rng.choice([b"OK", b"Not Found", b"", b"Switching Protocols", b"a  b"])
        s = bytearray(eol.join([start] + gen_headers(rng) + [b"", b""]) + rbytes(rng, rng.choice([0, 0, 3])))
        tag = "req" if isreq else "res"
        if rng.random() < 0.35:
            tag += "-mutated"
            k = rng.randrange(len(s))
            m = rng.random()
            if m < 0.4:
                s[k] = rng.choice([0, 1, 9, 10, 13, 32, 58, 127, 128, 255])
            elif m < 0.7:
                del s[k]
            else:
                s.insert(k, rng.choice([13, 10, 32, 58]))
        cuts = sorted(set(rng.randrange(1, max(2, len(s))) for _ in range(rng.choice([0, 1, 2, 4, 9]))))
        cases.append((tag, "%s %s %s" % ("req" if isreq else "res", hx(bytes(s)), ",".join(map(str, cuts)) or "-")))
    return cases


BUFSZ = 8160          # HTTP_BUFSIZE (checked against the generated constant in run())


def big_head(rng, isreq, total, long_at=None):
    """a head of about [total] bytes made of short header lines; long_at = 'uri' | 'hdr': one line longer than the buffer"""
    if isreq:
        uri = b"/home.html" if long_at != "uri" else b"/" + b"u" * (BUFSZ + rng.randrange(0, 900))
        out = b"GET " + uri + b" HTTP/1.1\r\nHost: 127.0.0.1\r\n"
    else:
        out = b"HTTP/1.1 200 OK\r\n"
    i = 0
    longpos = rng.randrange(0, max(1, total // 2)) if long_at == "hdr" else None
    while len(out) < total:
        if longpos is not None and len(out) >= longpos:
            out += b"X-Long: " + b"L" * (BUFSZ + rng.randrange(0, 2000)) + b"\r\n"
            longpos = None
        out += b"X-F-%03d: " % i + bytes(rng.choice(b"abcxyz019") for _ in range(rng.randrange(1, 90))) + b"\r\n"
        i += 1
    return out + b"\r\n" + rng.choice([b"", b"BODY"])


def gen_bighead_cases(rng, nstreams, tier):
    cases = []
    # the shape of seeded/C16/3: 100 header lines of 87 bytes after the request line
    seed3 = b"GET /home.html HTTP/1.1\r\nHost: 127.0.0.1\r\n" + b"".join(
        b"X-Filler-%03d: " % i + b"v" * 70 + b"\r\n" for i in range(100)) + b"\r\n"
    streams = [("hreq", seed3, "hreq-big")]
    for k in range(nstreams):
        isreq = k % 2 == 0
        long_at = None
        if k % 5 == 3:
            long_at = "hdr"
        elif k % 10 == 4:
            long_at = "uri"
        s = big_head(rng, isreq, rng.choice([6000, 8100, 8160, 8300, 9000, 12000, 16400, 20000]), long_at)
        streams.append(("hreq" if isreq else "hres", s, ("hreq" if isreq else "hres") + ("-longline" if long_at else "-big")))
    for kind, s, tag in streams:
        n = len(s)
        lf = [i + 1 for i in range(n) if s[i] == 10]                      # positions just after a line
        strad = [p for p in lf if p > BUFSZ][:1]                           # end of the line that straddles the buffer end
        cutsets = [[], [BUFSZ], [BUFSZ - 1], [BUFSZ + 1], [min(n - 1, 1500 * i) for i in range(1, n // 1500 + 1)],
                   [5000], [8100], [BUFSZ - 3, BUFSZ + 2]]
        if strad:
            cutsets += [[strad[0] - 1], [strad[0]], [max(1, strad[0] - 40), strad[0] + 1]]
        cutsets.append([p for p in lf if p < n][::max(1, len(lf) // 50)])  # line aligned pieces
        for _ in range(4 if tier == "quick" else 12):
            k = rng.choice([1, 2, 3, 8, 30])
            cutsets.append(sorted(set(rng.randrange(1, n) for _ in range(k))))
        for cs in cutsets:
            cs = sorted(set(c for c in cs if 0 < c < n))[:60]
            cases.append((tag, "%s %s %s" % (kind, hx(s), ",".join(map(str, cs)) or "-")))
    return cases


def gen_b64_cases(rng, n):
    cases = []
    for ln in list(range(0, 24)) + [31, 32, 33, 47, 48, 49, 60]:
        d = rbytes(rng, ln)
        enc = base64.b64encode(d)
        cases.append(("b64e", "b64e %s %d" % (hx(d), 200)))
        cases.append(("b64e", "b64e %s %d" % (hx(d), len(enc) + rng.choice([0, 1]))))
        cases.append(("b64d", "b64d %s %d" % (hx(enc), 200)))
        cases.append(("b64d", "b64d %s %d" % (hx(enc), ln - rng.choice([0, 1]) if ln else 0)))
    while len(cases) < n:
        d = rbytes(rng, rng.randrange(0, 40))
        enc = bytearray(base64.b64encode(d))
        for _ in range(rng.choice([0, 0, 1, 2])):
            k = rng.randrange(len(enc) + 1)
            enc.insert(k, rng.choice(b" \t\n\r=*-_!~") if rng.random() < 0.8 else rng.randrange(128))
        cases.append(("b64d", "b64d %s %d" % (hx(bytes(enc)), rng.choice([200, 200, len(d), max(len(d) - 1, 0)]))))
    return cases


# ------------------------------------------------------------------ running
def run_parallel(binpath, lines, workers=8, timeout=600, args=()):
    """one command per case; cases are dealt round-robin to [workers] processes.
    returns (list of output line lists per case, list of (worker, rc, stderr))"""
    outs = [None] * len(lines)
    crashes = []
    buckets = [list(range(w, len(lines), workers)) for w in range(workers)]

    def work(w):
        idx = buckets[w]
        if not idx:
            return
        per, crash = run_cases(binpath, [[lines[i]] for i in idx], timeout=timeout, args=args)
        for j, i in enumerate(idx):
            outs[i] = per[j]
        if crash:
            crashes.append((idx[crash[0]], crash[1], crash[2]))

    with ThreadPoolExecutor(max_workers=workers) as ex:
        list(ex.map(work, range(workers)))
    return [o or [] for o in outs], crashes


def norm_ws(lines):
    """(deliveries, pongs (sorted), other tx, rest)"""
    rx = [l for l in lines if l.startswith("rx")]
    tx = [l for l in lines if l.startswith("tx")]
    pongs = sorted(l for l in tx if l.startswith("tx hdr=8a"))
    other = [l for l in tx if not l.startswith("tx hdr=8a")]
    rest = [l for l in lines if not (l.startswith("rx") or l.startswith("tx") or l.startswith("hs"))]
    return rx, pongs, other, rest


def tx_bytes(lines):
    b = b""
    for l in lines:
        m = re.match(r"tx hdr=(\S+) key=(\d) payload=(\S+)", l)
        if m:
            b += unhx(m.group(1)) + (b"\0\0\0\0" if m.group(2) == "1" else b"") + unhx(m.group(3))
    return b


def sub_multiset(a, b):
    b = list(b)
    for x in a:
        if x in b:
            b.remove(x)
        else:
            return False
    return True


def http_body_iov(rep, impl, rng, tier, replay=None):
    """reads with several io-vector elements (nng_http_read_all / nng_http_read): c bytes of the body are in the
    connection's read buffer when the read is posted, the rest arrives afterwards.  Oracle (the property: the same
    body however the stream is split): the elements receive consecutive bytes of the body.  Correspondence:
    Codec/HttpIov.v http_read_full, evaluated by coqc (vm_compute) on the same cases, gives the same buffers."""
    import subprocess
    head = b"HTTP/1.1 200 OK\r\nContent-Length: %d\r\n\r\n"
    if replay:
        cs = [l.split()[1:] for l in open(replay) if l.startswith("hbody ")]
        cs = [(unhx(c[1]), int(c[2]), [int(x) for x in c[3].split(",")], c[4]) for c in cs]
    else:
        cs = [(b"ABCDEFGHIJKL", 6, [4, 4, 4], "f"), (b"ABCDEFGHIJKL", 4, [4, 4, 4], "f"), (b"ABCDEFGHIJKL", 5, [2, 3, 7], "f")]
        for i in range(60 if tier == "quick" else 1500):
            k = rng.choice([1, 2, 3, 3, 4, 5, 8])
            lens = [rng.choice([1, 2, 3, 4, 7, 16, 100]) for _ in range(k)]
            body = rbytes(rng, sum(lens))
            # aim at the boundaries between elements, and just beside them
            edges = [sum(lens[:j]) for j in range(k + 1)]
            c = rng.choice(edges + [max(0, e - 1) for e in edges] + [min(len(body), e + 1) for e in edges] + [rng.randrange(len(body) + 1)])
            cs.append((body, c, lens, "f" if rng.random() < 0.8 else "r"))
    lines = ["hbody %s %s %d %s %s" % (hx(head % len(b)), hx(b), c, ",".join(map(str, lens)), m) for b, c, lens, m in cs]
    rc, out, errtxt = run_prog(impl, "\n".join(lines) + "\n", timeout=600)
    res = [l for l in out if l.startswith("hbody ")]
    if rc != 0 or len(res) != len(lines):
        p = rep.replay_file("hbody_crash.case", "# rc=%s %s\n" % (rc, (errtxt or "")[-1500:].replace("\n", "\n# ")) + "\n".join(lines) + "\n")
        rep.violation(p, "HTTP multi-element reads: driver crashed / sanitizer report / missing answers (rc=%s): %s" % (rc, san_summary(errtxt or "")))
        return
    # the model's answers (repaired variant as long as the source carries the repair)
    flags = open(os.path.join(VERIF, "coq", "Gen", "Consts.v")).read()
    fixed = "Definition C16_RDBUF_IOV_REFETCH : bool := true" in flags
    full = [(i, c) for i, c in enumerate(cs) if c[3] == "f"]
    vf = os.path.join(rep.outdir if hasattr(rep, "outdir") else os.path.join(VERIF, "out", "C16"), "hbody_cases.v")
    os.makedirs(os.path.dirname(vf), exist_ok=True)
    with open(vf, "w") as f:
        f.write("From Coq Require Import List NArith.\nFrom NngV Require Import Codec.HttpIov.\nImport ListNotations.\n")
        for i, (b, c, lens, m) in full:
            f.write("Eval vm_compute in (http_read_full %s [%s]%%N %d [%s]%%nat).\n" % ("true" if fixed else "false", "; ".join(str(x) for x in b), c, "; ".join(map(str, lens))))
    r = subprocess.run(["coqc", "-Q", os.path.join(VERIF, "coq"), "NngV", vf], capture_output=True, text=True, timeout=600, cwd=os.path.dirname(vf))
    mouts = [re.sub(r"\s+", "", x) for x in r.stdout.split("     = ")[1:]]
    model = {}
    if r.returncode == 0 and len(mouts) == len(full):
        for (i, _), t in zip(full, mouts):
            mm = re.match(r"\((\[.*\]),(\d+)\):mem\*nat", t)
            if mm:
                bufs = [[int(v) for v in re.findall(r"\d+", x)] for x in re.findall(r"\[([^\[\]]*)\]", mm.group(1))]
                model[i] = (bufs, int(mm.group(2)))
    bad_model = []
    nviol = 0
    for i, ((b, c, lens, m), l) in enumerate(zip(cs, res)):
        mm = re.match(r"hbody rv=(\S+) n=(\d+) iov=(\S*)$", l)
        if not mm:
            p = rep.replay_file("hbody_%d.case" % i, "# %s\n%s\n" % (l, lines[i]))
            rep.violation(p, "HTTP multi-element read gave no result: %s" % l, nofail=True)
            continue
        rv, n, got = mm.group(1), int(mm.group(2)), [unhx(x) if x != "-" else b"" for x in mm.group(3).split(",")]
        flat = b"".join(got)
        want_n = len(b) if m == "f" else n
        ok = rv == "0" and n == want_n and 0 < n <= len(b) and flat[:n] == b[:n] and all(x == 0xEE for x in flat[n:]) and [len(x) for x in got] == lens
        if not ok and nviol < 6:
            nviol += 1
            p = rep.replay_file("hbody_%d.case" % i, "# %s\n# body %s, %d bytes buffered, elements %s, mode %s\n%s\n" % (l, hx(b), c, lens, m, lines[i]))
            rep.violation(p, "HTTP read with %d io-vector elements %s, %d of %d body bytes already buffered: rv=%s count=%d, elements received %s -- "
                             "expected consecutive bytes of the body %s" % (len(lens), lens, c, len(b), rv, n, ",".join(hx(x) for x in got)[:120], hx(b)[:80]))
        elif ok and i in model:
            mb, mn = model[i]
            if [list(x) for x in got] != mb or mn != n:
                bad_model.append(i)
    if (r.returncode != 0 or len(model) != len(full) or bad_model) and not nviol:
        i = bad_model[0] if bad_model else 0
        p = rep.replay_file("hbody_model_%d.case" % i, "# coqc rc=%s; %d of %d model answers parsed; %d differ\n# %s\n%s\n" % (r.returncode, len(model), len(full), len(bad_model), (r.stderr or "")[-600:].replace("\n", " "), lines[i]))
        rep.violation(p, "correspondence Codec/HttpIov.v <-> http_rd_buf broken (%d of %d cases differ or could not be evaluated)" % (len(bad_model), len(full)), nofail=True)
    rep.cov["http_multi_element_reads"] = {"cases": len(cs), "model_compared": len(model), "model_variant": "repaired" if fixed else "pinned",
                                           "elements_histogram": {str(k): sum(1 for x in cs if len(x[2]) == k) for k in sorted({len(x[2]) for x in cs})},
                                           "buffered_on_element_boundary": sum(1 for b, c, lens, m in cs if c in [sum(lens[:j]) for j in range(len(lens) + 1)])}


def run(tier, seed, replay=None):
    rep = Report("C16", tier, seed)
    if os.environ.get("NNGV_C16_ASSUME_KNOWN"):      # development aid: treat the findings of KNOWN_TEXT as recorded
        for k, v in KNOWN_TEXT.items():
            rep.known.setdefault(k, v)
    import time as _t
    _t0 = _t.time()

    def lap(what):
        if os.environ.get("NNGV_TIMING"):
            print("  [%6.1fs] %s" % (_t.time() - _t0, what))
    ok, msg = gen_consts("c16")
    cb = coq_build("Properties_C16")
    gate = coq_gate()
    rep.proof_cov(cb, "make -C coq Props/Properties_C16.vo && coqc Props/Properties_C16.v (Print Assumptions) ; grep gate")
    proof_ok = ok and cb["ok"] and not gate
    model_build("codec")
    bdir, err = nng_build("asan")
    if bdir is None:
        p = rep.replay_file("build_failed.txt", err)
        rep.violation(p, "nng does not build", nofail=True)
        return rep.finish()
    impl, err = wb_build(bdir, "wb_codec.c")
    if impl is None:
        p = rep.replay_file("build_failed.txt", err)
        rep.violation(p, "white-box driver does not build against the current tree", nofail=True)
        return rep.finish()
    model = model_bin("modeld_codec")
    rng = random.Random(seed)
    q = tier == "quick"
    if replay:
        cases = [("replay", l.strip()) for l in open(replay) if l.strip() and not l.startswith("#")]
    else:
        cases = [("corpus", c[0]) for c in load_corpus("C16") if c]
        cases += gen_b64_cases(rng, 150 if q else 10000)
        cases += [("sha1", "sha1 " + hx(d)) for d in [b"", b"abc", b"a" * 55, b"a" * 56, b"a" * 63, b"a" * 64, b"a" * 65,
                                                      b"abcdbcdecdefdefgefghfghighijhijkijkljklmklmnlmnomnopnopq", b"x" * 200]
                  + [rbytes(rng, rng.randrange(0, 300)) for _ in range(10 if q else 300)]]
        cases += gen_chunk_cases(rng, 500 if q else 60000, tier)
        cases += gen_head_cases(rng, 600 if q else 60000, tier)
        cases += gen_bighead_cases(rng, 10 if q else 120, tier)
        cases += gen_ws_cases(rng, 600 if q else 30000, tier)
        cases += gen_send_cases(rng, 80 if q else 6000)
    lap("build done")
    mb = re.search(r"C16_HTTP_BUFSIZE : N := (\d+)", open(os.path.join(COQ, "Gen", "Consts.v")).read())
    global BUFSZ
    if mb:
        BUFSZ = int(mb.group(1))
    lines = [c[1] for c in cases]
    # pause between two pieces of a stream written to the loopback socket (microseconds)
    gap = ("1500",) if q else ("3000",)
    iout, crashes = run_parallel(impl, lines, workers=12, args=gap, timeout=600 if q else 3000)
    lap("impl run")
    mout, mcr = run_parallel(model, [l for l in lines], workers=4 if q else 12, timeout=600 if q else 3000)
    # spec oracle queries
    sq = []
    for tag, l in cases:
        t = l.split()
        if t[0] == "ws":
            sq.append("spec " + l)
        elif t[0] == "chunk":
            sq.append("spec chunk %s %s" % (t[1], t[2]))
        elif t[0] == "b64e":
            sq.append("spec b64e %s" % t[1])
        else:
            sq.append("# none")
    sout, _ = run_parallel(model, sq, workers=4 if q else 12, timeout=600 if q else 3000)
    lap("model+spec run")

    hist, classes, distinct = {}, set(), set()
    pongs_lost = [0]
    diverged, nevals = [], 0
    seg_groups = {}

    def viol(name, idx, text, key=None, nofail=False):
        tag, l = cases[idx]
        p = rep.replay_file("%s_%d.case" % (name, idx), "# %s\n# impl : %s\n# model: %s\n%s\n" % (
            text, " | ".join(iout[idx])[:600], " | ".join(mout[idx])[:600], l))
        rep.violation(p, text + " [case: " + l[:120] + ("..." if len(l) > 120 else "") + "]", nofail=nofail, key=key)

    leak_only = False
    for idx, rc, errtxt in crashes:
        blocks = re.split(r"\n(?=Direct leak|Indirect leak)", errtxt)
        leaks = [b for b in blocks if b.startswith("Direct leak") or b.startswith("Indirect leak")]
        if rc == 99 and "LeakSanitizer" in errtxt and leaks and all("ws_msg_init_control" in b for b in leaks):
            # pongs queued behind a close frame are unlinked without being freed (ws_write_cb): a leak,
            # reported to C03; C16 only notes it (the observations of the run are complete)
            leak_only = True
            rep.replay_file("leak_%d.txt" % idx, errtxt)
        else:
            p = rep.replay_file("crash_%d.case" % idx, "# rc=%s\n# %s\n%s\n" % (rc, errtxt.replace("\n", "\n# "), lines[idx]))
            rep.violation(p, "implementation crashed / sanitizer report (rc=%s) near case: %s" % (rc, lines[idx][:100]))

    for idx, (tag, l) in enumerate(cases):
        t = l.split()
        io, mo, so = iout[idx], mout[idx], sout[idx]
        nevals += 1
        hist[tag] = hist.get(tag, 0) + 1
        if not io:
            continue            # lost to a crash reported above
        kind = t[0]
        if kind == "sha1":
            exp = "sha1 " + hashlib.sha1(unhx(t[1])).hexdigest()
            if io != [exp]:
                viol("sha1", idx, "nni_sha1 differs from SHA-1")
            continue
        if kind in ("b64e", "b64d"):
            classes.add((kind, io[0].split()[1]))
            if kind == "b64e":
                d = unhx(t[1])
                exp = base64.b64encode(d)
                m = re.match(r"b64e n=(-?\d+)(?: out=(\S+))?", io[0])
                if m and m.group(1) != "-1" and (unhx(m.group(2) or "-") != exp or so != ["spec b64e=" + hx(exp)]):
                    viol("b64", idx, "nni_base64_encode output is not the RFC 4648 encoding")
                    continue
                if m and m.group(1) == "-1" and int(t[2]) > len(exp):
                    viol("b64", idx, "nni_base64_encode refuses although output and NUL fit")
                    continue
            else:
                raw = bytes(c for c in unhx(t[1]))
                m = re.match(r"b64d n=(-?\d+)(?: out=(\S+))?", io[0])
                clean = re.match(rb"^[A-Za-z0-9+/\s]*=*\s*$", raw) and len(re.sub(rb"[\s=]", b"", raw)) % 4 != 1
                if clean and m and m.group(1) != "-1":
                    try:
                        exp = base64.b64decode(re.sub(rb"[\s=]", b"", raw) + b"===")
                        if unhx(m.group(2) or "-") != exp:
                            viol("b64", idx, "nni_base64_decode of a valid encoding is not the original")
                            continue
                    except Exception:
                        pass
            if io != mo:
                diverged.append((idx, "B64Model"))
            else:
                distinct.add(l)
            continue
        if kind == "chunk":
            fin_i = io[-1] if io else ""
            classes.add((kind, fin_i.split()[1] if fin_i else "?"))
            seg_groups.setdefault(("chunk", t[1], t[2]), []).append((idx, fin_i))
            sp = so[0] if so else ""
            m = re.match(r"chunks rv=(\d+) used=(\d+) total=(\d+)(.*)", fin_i)
            if m and sp.startswith("spec chunk=bad") and m.group(1) == "0":
                viol("chunk", idx, "chunk decoder delivered a body for an ill-formed chunk stream")
                continue
            if m and sp.startswith("spec chunk=body") and m.group(1) == "0":
                sb = " ".join(sp.split()[3:])
                ib = " ".join(x for x in m.group(4).split())
                if sb != ib:
                    viol("chunk", idx, "chunk decoder delivered different data than the de-chunked stream")
                    continue
            if io != mo:
                diverged.append((idx, "ChunkedModel"))
            elif m and m.group(1) in ("0", "13", "17"):
                distinct.add((t[1], t[2]))
            continue
        if kind in ("req", "res"):
            fin_i = io[-1] if io else ""
            fin_m = mo[-1] if mo else ""
            seg_groups.setdefault((kind, t[1]), []).append((idx, fin_i))
            if fin_m == "head unmodelled":
                continue
            raw = unhx(t[1])
            first = re.split(rb"\r?\n", raw)[0] if b"\n" in raw else None
            mm = re.match(r"(req|res) rv=(\d+) used=(\d+) status=(\d+)", fin_i)
            if mm:
                classes.add((kind, mm.group(2), mm.group(4)))
            headpart = re.split(rb"\r?\n\r?\n", raw)[0] if re.search(rb"\r?\n\r?\n", raw) else None
            if mm and headpart is not None and not raw.startswith((b"\r\n", b"\n")) and mm.group(2) == "0" and \
                    (re.search(rb"\r(?!\n)", headpart + b"\r\n") or re.search(rb"[\x00-\x09\x0b\x0c\x0e-\x1f]", headpart)):
                viol("ctl", idx, "a head containing a bare CR / control character was accepted")
                continue
            clean_first = first is not None and first != b"" and not re.search(rb"[\x00-\x1f\x7f-\xff]", first.rstrip(b"\r"))
            if mm and kind == "req" and clean_first and mm.group(2) == "0":
                fl = first.rstrip(b"\r")
                if fl.count(b" ") < 2 and mm.group(4) != "400":
                    viol("req", idx, "request line without two spaces did not yield 400")
                    continue
                if fl.count(b" ") >= 2 and fl.split(b" ", 2)[2] not in VERSIONS[:5] and mm.group(4) not in ("400", "505"):
                    viol("req", idx, "unsupported HTTP version did not yield 505/400")
                    continue
                hl = []
                for x in raw.split(b"\n")[1:]:       # header lines up to the blank line
                    x = x[:-1] if x.endswith(b"\r") else x
                    if x == b"":
                        break
                    hl.append(x)
                if any(x and b":" not in x for x in hl) and mm.group(4) == "200":
                    viol("reqhdr", idx, KNOWN_TEXT["http-req-header-nocolon-ignored"], key="http-req-header-nocolon-ignored")
            if mm and kind == "res" and clean_first and mm.group(2) == "0":
                if not re.match(rb"^[^ ]+ \d{3} ", first.rstrip(b"\r")):
                    viol("resline", idx, KNOWN_TEXT["http-status-atoi-lenient"], key="http-status-atoi-lenient")
            fm = fin_m
            fi = fin_i
            if " reason=*" in fm:
                fi = re.sub(r" reason=\S+", " reason=*", fi)
            if io[:-1] != mo[:-1] or fi != fm:
                diverged.append((idx, "HttpLineModel"))
            elif mm:
                distinct.add((kind, t[1]))
            continue
        if kind in ("hreq", "hres"):
            fin_i = io[-1] if io else ""
            fin_m = mo[-1] if mo else ""
            # implementation-only oracle: whatever the cuts, the same bytes must give the same outcome
            seg_groups.setdefault((kind + " (through http_rd_buf)", t[1]), []).append((idx, fin_i))
            classes.add((kind, " ".join(fin_i.split()[1:3])))
            raw = unhx(t[1])
            longest = max(len(x) + 1 for x in raw.split(b"\n"))
            m3 = re.match(r"h(?:req|res) rv=(\S+) status=(\d+)", fin_i)
            if m3 and longest <= BUFSZ and raw.startswith((b"GET /home.html HTTP/1.1\r\n", b"HTTP/1.1 200 OK\r\n")) \
                    and (m3.group(1), m3.group(2)) != ("0", "200"):
                viol("bighead", idx, "a well-formed head whose lines all fit the read buffer was not accepted (rv=%s status=%s, %d bytes, cuts %s)"
                     % (m3.group(1), m3.group(2), len(raw), t[2][:60]))
                continue
            if m3 and longest > BUFSZ + 2 and (m3.group(1), m3.group(2)) == ("0", "200"):
                viol("bighead", idx, "a head with a line longer than the read buffer was accepted")
                continue
            if fin_m == "head unmodelled":
                continue
            if " reason=*" in fin_m:
                fin_i = re.sub(r" reason=\S+", " reason=*", fin_i)
            if fin_i != fin_m:
                diverged.append((idx, "HttpBufModel"))
            else:
                distinct.add((kind, t[1], t[2]))
            continue
        if kind == "ws":
            role, mode, pre = t[1], t[2], int(t[6])
            hs = [x for x in io if x.startswith("hs")]
            if not hs or "wsfail" in " ".join(io):
                viol("wshs", idx, "WebSocket handshake with a raw peer failed", nofail=True)
                continue
            if role == "s" and not re.match(r"hs status=101 accept_ok=1", hs[0]):
                viol("wshs", idx, "101 response without the correct Sec-WebSocket-Accept")
                continue
            irx, ipong, iother, irest = norm_ws(io)
            mrx, mpong, mother, mrest = norm_ws(mo)
            srx = [x[5:] for x in so if x.startswith("spec rx")]
            outcome = (so[-1].split("=")[1] if so else "?")
            classes.add((role, mode, outcome, tag))
            # spec oracle: the reference receiver on the whole stream
            key = None
            if role == "c" and int(t[4]) not in (0, 1048576) and irx != srx:
                key = "ws-dialer-recvmax-ignored"
            if role == "s" and pre > 0:
                key = "http-wrbuf-clobbers-unread"
            if key is None and outcome != "violation" and len(irx) < len(srx) and any("payload=03f1" in x for x in iother):
                key = "ws-recvmax-counts-control"
            closes = [x for x in iother if re.match(r"tx hdr=88", x)]
            bad = None
            if irx != srx:
                extra = len(irx) > len(srx) or any(a != b for a, b in zip(irx, srx))
                bad = ("delivered data of a rule-violating / different frame sequence" if extra
                       else "did not deliver a message the byte stream contains (segmentation: cuts=%s hcuts=%s pre=%d)" % (t[8], t[9], pre))
            elif outcome == "violation" and not closes:
                bad = "a rule violation did not fail the connection (no close frame)"
            elif not spec_wf_ok(model, role, tx_bytes(io)):
                bad = "emitted frames are not well-formed for a %s" % ("server" if role == "s" else "client")
            if bad:
                viol("ws", idx, (KNOWN_TEXT[key] + " -- " if key else "") + "WebSocket receive path: " + bad, key=key)
                continue
            # a pong still queued when the connection goes down (close frame sent first, or the peer's EOF
            # seen first) is dropped by nng: pongs are compared as a sub-multiset, losses are counted
            same = irx == mrx and iother == mother and irest == mrest and sub_multiset(ipong, mpong)
            if same and ipong != mpong:
                pongs_lost[0] += 1
            if not same:
                diverged.append((idx, "WsMsgModel"))
            else:
                distinct.add((role, mode, t[7]))
            continue
        if kind == "wssend":
            io = [x for x in io if not x.startswith("hs")]
            role, mode, data = t[1], t[2], unhx(t[5])
            classes.add((kind, role, mode, len(io)))
            b = tx_bytes(io)
            if not spec_wf_ok(model, role, b):
                viol("wssend", idx, "emitted frames are not well-formed")
                continue
            # what a conforming peer reassembles
            q2 = "spec ws %s m 0 0 1 0 %s" % ("c" if role == "s" else "s", hx(b))
            rc, o, e = run_prog(model, q2 + "\n", timeout=60)
            got = [x[8:] for x in o if x.startswith("spec rx ")]
            m = re.match(r"sent rv=(\d+) n=(\d+)", io[0]) if io else None
            if not m or m.group(1) != "0" or [unhx(x) for x in got] != [data[:int(m.group(2))]]:
                viol("wssend", idx, "fragments emitted for a send do not reassemble to the data sent")
                continue
            if io != mo:
                diverged.append((idx, "WsMsgModel(send)"))
            else:
                distinct.add(l)
            continue
    lap("compare")
    # segmentation: all cut variants of the same stream must end the same way
    for k, v in seg_groups.items():
        outs = set(x[1] for x in v)
        if len(outs) > 1:
            viol("seg", v[0][0], "%s decoder: different results for different segmentations of the same bytes: %s" % (k[0], " // ".join(sorted(outs))[:300]))
    if not replay or os.path.basename(replay).startswith("hbody_"):
        http_body_iov(rep, impl, rng, tier, replay)
    if diverged and not rep.violations:
        idx, what = diverged[0]
        viol("diverge", idx, "correspondence %s <-> code broken on %d cases (spec oracle found no violation); first" % (what, len(diverged)), nofail=True)
    if not proof_ok and not rep.violations:
        proof_broken_report(rep, cb, "C16 theorems do not check (%s)" % ("; ".join(gate[:3]) if gate else msg if not ok else "see log"))
    rep.cov.update({"evaluations": nevals, "distinct_nontrivial": len(distinct),
                    "rule": "one case = one byte stream + segmentation (+ configuration) run on the real library (ASan/UBSan; WebSocket through "
                            "a loopback TCP connection whose other end is a raw socket of the driver) and on the extracted models; distinct = "
                            "distinct streams on which both agree and something was decoded/emitted",
                    "samples": [lines[0][:200], lines[len(lines) // 2][:200], lines[-1][:200]],
                    "case_histogram": hist, "outcome_classes": len(classes), "cases": len(cases),
                    "model_impl_divergences": len(diverged), "leak_reports": leak_only,
                    "cases_with_pongs_dropped_at_connection_end": pongs_lost[0]})
    rep.assumptions += ["the heads nng emits (http_snprintf) are not modelled (checked against the grammar at run time only)",
                        "nni_url_canonify_uri is modelled on unreserved-character paths only (others: 'head unmodelled', skipped)",
                        "WebSocket back-pressure (no receiver waiting) not modelled: the harness always has a receive posted",
                        "cut positions of the loopback runs are realised by pauses between writes (no clamp hook): a cut may be merged by the kernel",
                        "order of pongs relative to each other, and pongs overtaken by a close frame, are not compared"]
    return rep.finish()


_wf_cache = {}


def spec_wf_ok(model, role, b):
    if not b:
        return True
    k = (role, b)
    if k not in _wf_cache:
        rc, o, e = run_prog(model, "spec wf %s %s\n" % (role, hx(b)), timeout=60)
        _wf_cache[k] = o == ["spec wf=true"]
    return _wf_cache[k]
