# C18 (id-map half) -- nng_id_map / nni_id_* behave as a finite map; ids issued by
# nni_id_alloc are fresh, in range and follow the cyclic order of the cursor
# (DESIGN 5/C18, Appendix D "Id map").
#
#   run_idmap(rep, tier, rng, bdir)   called by checks/c18.py after gen_consts,
#                                     the Coq build, model_build and nng_build
#   run(tier, seed, replay=None)      standalone (python3 checks/c18_idmap.py quick)
import os, random, re, sys

if __name__ == "__main__":
    sys.path.insert(0, os.path.join(os.path.dirname(os.path.dirname(os.path.abspath(__file__))), "lib"))
from vlib import *

U64 = 1 << 64
IMPL_TIMEOUT = 60     # a batch of 250 cases takes < 1 s; a hang (e.g. a probe sequence that is not a full cycle) is an observation
ONE_TIMEOUT = 5       # one case
PROPS_FILE = "IdMap/IdMapProps"


# ---------------------------------------------------------------- generators
class Gen:
    """tracks (approximately) which keys are live so that removes/gets hit and miss on purpose"""

    def __init__(self, rng, lo, hi, flags, pfail=0.0):
        self.rng, self.lo, self.hi, self.flags, self.pfail = rng, lo, hi, flags, pfail
        self.lines = ["init %x %x %x" % (lo, hi, flags)]
        self.elo = lo if (flags & 1) or lo else 1
        self.ehi = hi if (flags & 1) or hi else 0xffffffff
        self.live = {}
        self.nval = 0
        if flags & 2:
            r = rng.choice([0, 1, 5, 0x12345, 0xffffffff, rng.getrandbits(32)])
            self.lines.append("rand %x" % r)

    def val(self):
        self.nval += 1
        return self.rng.choice([self.nval, self.nval + 0x1000, self.rng.getrandbits(40) | 1])

    def f(self):
        return " fail" if self.rng.random() < self.pfail else ""

    def set(self, k):
        v = self.val()
        fl = self.f()
        self.lines.append("set %x %x%s" % (k, v, fl))
        if not fl:
            self.live[k] = v     # (with f the op may still succeed; live is only a hint)

    def remove(self, k):
        self.lines.append("remove %x%s" % (k, self.f()))
        self.live.pop(k, None)

    def get(self, k):
        self.lines.append("get %x" % k)

    def alloc(self):
        self.lines.append("alloc %x%s" % (self.val(), self.f()))

    def visit(self):
        self.lines.append("visit")
        self.lines.append("count")

    def some_live(self):
        return self.rng.choice(list(self.live)) if self.live else self.elo

    def in_range_key(self):
        return self.rng.randrange(self.elo, self.ehi + 1)


RANGE_BASES = [1, 2, 5, 0x7ffffff8, 0x7ffffffe, 0x80000000, 0xfffffff0, 0xffffffff, (1 << 63) - 1, U64 - 9]


def tiny_range(rng):
    """ranges [lo, lo+r] that wrap quickly: alloc to exhaustion, remove + alloc, set in and out of range"""
    r = rng.choice([0, 1, 1, 2, 2, 7, 7, 7])
    lo = rng.choice(RANGE_BASES)
    hi = min(lo + r, U64 - 1)
    if rng.random() < 0.15:
        hi = U64 - 1
        lo = hi - r
    flags = rng.choice([0, 0, 2, 1, 3]) if hi > lo else rng.choice([1, 3])
    g = Gen(rng, lo, hi, flags, pfail=rng.choice([0, 0, 0, 0.1]))
    if rng.random() < 0.5:
        g.lines.append("cursor %x" % rng.randrange(lo, hi + 1))
    issued = []
    for _ in range(rng.randrange(3, 50)):
        x = rng.random()
        if x < 0.45:
            g.alloc()
        elif x < 0.65:
            k = rng.randrange(lo, hi + 1)
            g.remove(k)
        elif x < 0.72:
            g.set(rng.randrange(lo, hi + 1))
        elif x < 0.78:
            g.set(rng.choice([hi + 1 if hi + 1 < U64 else 0, lo - 1, lo + 8, lo + 16, rng.getrandbits(64)]) % U64)
        elif x < 0.86:
            g.get(rng.randrange(max(lo - 1, 0), min(hi + 2, U64)))
        elif x < 0.93:
            g.visit()
        elif x < 0.96:
            g.lines.append("cursor %x" % rng.randrange(lo, hi + 1))
        else:
            # exhaust, then free one and allocate again
            for _ in range(r + 2):
                g.alloc()
            k = rng.randrange(lo, hi + 1)
            g.remove(k)
            g.alloc()
            g.alloc()
    g.visit()
    return g.lines


def collisions(rng):
    """keys equal modulo 8/16/32/64/128: long probe chains, skip counters, walk-back on remove"""
    M = rng.choice([8, 16, 32, 64, 128])
    base = rng.choice([0, 1, 3, 7, rng.getrandbits(20), rng.getrandbits(64) & ~(M - 1) & (U64 - 1)])
    g = Gen(rng, 0, 0, rng.choice([0, 2]), pfail=rng.choice([0, 0, 0.05]))
    pool = [(base + i * M) % U64 for i in range(rng.choice([3, 5, 6, 9, 12]))]
    pool += [(base + 1 + i * M) % U64 for i in range(rng.choice([0, 2, 4]))]
    for _ in range(rng.randrange(5, 70)):
        x = rng.random()
        k = rng.choice(pool)
        if x < 0.42:
            g.set(k)
        elif x < 0.80:
            g.remove(k if rng.random() < 0.8 else g.some_live())
        elif x < 0.90:
            g.get(k)
        elif x < 0.95:
            g.alloc()
        else:
            g.visit()
    for k in pool:
        g.get(k)
    g.visit()
    return g.lines


def storm(rng, big):
    """set/remove storms across the grow (load >= 5, >= 2cap/3) and shrink (load < cap/8) thresholds"""
    g = Gen(rng, rng.choice([0, 1, 0x80000000]), rng.choice([0, 0xffffffff]), rng.choice([0, 2]),
            pfail=rng.choice([0, 0, 0, 0.03]))
    n = rng.choice([4, 5, 6, 11, 12, 22, 23, 44]) if not big else rng.choice([90, 180, 360, 700])
    stride = rng.choice([1, 1, 2, 3, 8, 16])
    base = rng.choice([0, 1, 100, 0x80000000, rng.getrandbits(32)])
    keys = [base + i * stride for i in range(n)]
    mode = rng.choice(["set", "alloc", "mixed"])
    for i, k in enumerate(keys):
        if mode == "set" or (mode == "mixed" and rng.random() < 0.5):
            g.set(k)
        else:
            g.alloc()
        if rng.random() < 0.08:
            g.get(rng.choice(keys))
        if rng.random() < 0.03:
            g.visit()
    g.visit()
    order = list(keys) if mode == "set" else list(range(g.elo, g.elo + n)) + keys
    rng.shuffle(order)
    # shrink storm, sometimes bouncing around a threshold
    for k in order:
        g.remove(k)
        if rng.random() < 0.15:
            g.set(k)
            g.remove(k)
        if rng.random() < 0.05:
            g.get(rng.choice(order))
        if rng.random() < 0.03:
            g.visit()
    g.visit()
    if rng.random() < 0.3:
        g.lines.append("fini")
        g.set(5)
        g.alloc()
        g.visit()
    return g.lines


def randomops(rng):
    g = Gen(rng, rng.choice([0, 1, 7]), rng.choice([0, 20, 40, 0xffffffff]), rng.choice([0, 1, 2, 3]),
            pfail=rng.choice([0, 0.05, 0.2]))
    if g.ehi <= g.elo:
        g = Gen(rng, 1, 40, 0)
    span = rng.choice([12, 40, 200])
    for _ in range(rng.randrange(5, 120)):
        x = rng.random()
        k = rng.randrange(0, span) * rng.choice([1, 1, 8])
        if x < 0.3:
            g.set(k)
        elif x < 0.55:
            g.remove(g.some_live() if rng.random() < 0.7 else k)
        elif x < 0.75:
            g.alloc()
        elif x < 0.9:
            g.get(k)
        elif x < 0.97:
            g.visit()
        elif x < 0.985:
            g.lines.append("cursor %x" % rng.randrange(g.elo, g.ehi + 1))
        else:
            g.lines.append("fini")
    g.visit()
    return g.lines


def library_ranges(rng):
    """the ranges the library itself uses (socket/ctx/dialer/listener/pipe ids, request/survey ids)"""
    lo, hi, flags = rng.choice([(1, 0x7fffffff, 1), (1, 0x7fffffff, 3), (0x80000000, 0xffffffff, 2), (1, 0xffffffff, 2), (0, 0, 0)])
    g = Gen(rng, lo, hi, flags)
    elo, ehi = g.elo, g.ehi
    if rng.random() < 0.6:
        g.lines.append("cursor %x" % rng.choice([ehi, ehi - 1, ehi - 3, elo, elo + 1]))
    else:
        r = "rand %x" % rng.choice([ehi - elo, ehi - elo - 1, ehi - elo + 1, 0, 0xffffffff, 0x7fffffff, 0x80000000])
        if g.lines[-1].startswith("rand"):
            g.lines[-1] = r
        else:
            g.lines.append(r)
    for _ in range(rng.randrange(2, 25)):
        x = rng.random()
        if x < 0.6:
            g.alloc()
        elif x < 0.8:
            g.remove(rng.choice([ehi, ehi - 1, elo, elo + 1, elo + 2]))
        elif x < 0.9:
            g.get(rng.choice([ehi, elo, elo - 1 if elo else 0, (ehi + 1) % U64]))
        else:
            g.visit()
    g.visit()
    return g.lines


def gen_case(rng, tier):
    x = rng.random()
    if x < 0.30:
        return tiny_range(rng)
    if x < 0.55:
        return collisions(rng)
    if x < 0.75:
        return storm(rng, big=(tier != "quick" and rng.random() < 0.25) or rng.random() < 0.04)
    if x < 0.88:
        return randomops(rng)
    return library_ranges(rng)


# ------------------------------------------------------------------ running
def split_obs(lines):
    """driver output of one case -> (api lines, diag lines keyed by api index)"""
    api, diag = [], {}
    for l in lines:
        if l.startswith("diag "):
            diag[len(api) - 1] = l
        else:
            api.append(l)
    return api, diag


def spec_judge(model, cases, apis):
    """run the extracted spec as judge over the implementation's observations.
    returns {case index: (op index, text)} for the first contradiction per case"""
    script = []
    for k, (case, api) in enumerate(zip(cases, apis)):
        script.append("mark %d" % k)
        for i, op in enumerate(case):
            script.append("%s\t%s" % (op, api[i] if i < len(api) else "MISSING"))
    script.append("mark %d" % len(cases))
    rc, out, err = run_prog(model, "\n".join(script) + "\n", timeout=900, args=("--spec",))
    res = {}
    cur, i = -1, 0
    for l in out:
        if l.startswith("mark "):
            cur, i = int(l.split()[1]), 0
            continue
        if l.startswith("SPECFAIL") and cur not in res and 0 <= cur < len(cases):
            res[cur] = (i, l)
        i += 1
    if rc != 0:
        res.setdefault(max(cur, 0), (0, "spec judge failed rc=%s %s" % (rc, err[-300:])))
    return res


def impl_fails_spec(impl, model, case):
    out, crash = run_cases(impl, [case], timeout=ONE_TIMEOUT)
    if crash:
        return True
    api, _ = split_obs(out[0])
    return 0 in spec_judge(model, [case], [api])


def source_fixed():
    """which variant of the nni_id_alloc wrap test the current source has (Gen/Consts.v, regenerated on every run)"""
    try:
        return re.search(r"IDMAP_ALLOC_WRAP_FIXED : bool := true", open(os.path.join(COQ, "Gen", "Consts.v")).read()) is not None
    except OSError:
        return False


def margs():
    return ("--fixed",) if source_fixed() else ()


def differs(impl, model, case):
    io, crash = run_cases(impl, [case], timeout=ONE_TIMEOUT)
    mo, _ = run_cases(model, [case], args=margs())
    if crash:
        return True
    return split_obs(io[0])[0] != split_obs(mo[0])[0]


def diag_differs(impl, model, case):
    io, crash = run_cases(impl, [case], timeout=ONE_TIMEOUT)
    mo, _ = run_cases(model, [case], args=margs())
    return (not crash) and split_obs(io[0])[1] != split_obs(mo[0])[1]


def keep_init(pred):
    """shrinking must keep the init line first"""
    return lambda c: bool(c) and c[0].startswith("init") and pred(c)


def run_idmap(rep, tier, rng, bdir, replay=None):
    impl, err = wb_build(bdir, "wb_idmap.c")
    if impl is None:
        p = rep.replay_file("idmap_driver_build_failed.txt", err)
        rep.violation(p, "id map white-box driver does not build against the current tree (struct nni_id_map / nni_id_* signatures changed?)", nofail=True)
        return {}
    model = model_bin("modeld_idmap")
    ncases = 700 if tier == "quick" else 30000
    if replay:
        cases = [[l.strip() for l in open(replay) if l.strip() and not l.startswith("#")]]
    else:
        cases = load_corpus("C18_idmap") + [gen_case(rng, tier) for _ in range(ncases)]
    nevals = 0
    hist, classes, distinct = {}, set(), set()
    caps = {}
    diverged, diag_only, diag_first = [], 0, None
    spec_bad = 0
    for b0 in range(0, len(cases), 250):
        batch = cases[b0:b0 + 250]
        try:
            iout, crash = run_cases(impl, batch, timeout=IMPL_TIMEOUT)
        except FileNotFoundError:
            # the scratch build was evicted by a concurrent build of another tree: rebuild and go on
            bdir, err = nng_build("asan")
            impl, err = wb_build(bdir, "wb_idmap.c") if bdir else (None, err)
            if impl is None:
                p = rep.replay_file("idmap_driver_build_failed.txt", err)
                rep.violation(p, "id map white-box driver vanished and does not rebuild", nofail=True)
                break
            iout, crash = run_cases(impl, batch, timeout=IMPL_TIMEOUT)
        mout, mcrash = run_cases(model, batch, timeout=900, args=margs())
        if crash:
            ci, rc, errtxt = crash
            if rc == -9:      # hang: find the case (the marks tell how far the batch got), shrink with a short timeout
                ci = next((i for i, c in enumerate(batch) if run_cases(impl, [c], timeout=ONE_TIMEOUT)[1] is not None), ci)
            single, c2 = run_cases(impl, [batch[ci]], timeout=ONE_TIMEOUT)
            small = ddmin(batch[ci], keep_init(lambda c: run_cases(impl, [c], timeout=ONE_TIMEOUT)[1] is not None), max_iter=120) if c2 else batch[ci]
            p = rep.replay_file("idmap_crash_%d.case" % (b0 + ci), "# implementation crashed (rc=%s)\n# %s\n" % (rc, errtxt.replace("\n", "\n# ")) + "\n".join(small) + "\n")
            rep.violation(p, "id map: implementation %s on a precondition-respecting program" % ("does not terminate (killed after %ds)" % IMPL_TIMEOUT if rc == -9 else "crashed / assertion / sanitizer report (rc=%s)" % rc))
            if rc == -9:
                break         # every further batch would hang as well
            continue
        apis = [split_obs(o) for o in iout]
        mapis = [split_obs(o) for o in mout]
        sv = spec_judge(model, batch, [a for a, _ in apis])
        for ci, case in enumerate(batch):
            api, idiag = apis[ci]
            mapi, mdiag = mapis[ci]
            nontriv = False
            for k, line in enumerate(case):
                nevals += 1
                op = line.split()[0]
                hist[op] = hist.get(op, 0) + 1
                o = api[k] if k < len(api) else ""
                d = idiag.get(k, "")
                m = re.match(r"diag cap=(\d+)", d)
                cap = int(m.group(1)) if m else -1
                if cap >= 0:
                    caps[cap] = caps.get(cap, 0) + 1
                res = re.sub(r"(id|v)=[0-9a-f]+", r"\1=X", o) if not o.startswith("visit") else "visit"
                classes.add((op, res, cap, line.endswith(" fail")))
                if op in ("set", "remove", "alloc") and "rv=0" in o:
                    nontriv = True
            if ci in sv:
                spec_bad += 1
                k, text = sv[ci]
                small = ddmin(case, keep_init(lambda c: impl_fails_spec(impl, model, c))) if len(rep.violations) < 4 else case
                p = rep.replay_file("idmap_spec_%d.case" % (b0 + ci), "# %s at op %d (%s)\n" % (text, k, case[k] if k < len(case) else "?") + "\n".join(small) + "\n")
                t0 = (case[0].split() + ["", "", ""])[:3] if case else ["", "", ""]
                known = "idmap-alloc-u64max-wrap" if ("alloc-range" in text and t0[2] == "ffffffffffffffff") else None
                rep.violation(p, "id map: implementation contradicts the finite-map / fresh-in-range-cyclic-alloc spec: %s (op %d: %s)" % (text[:200], k, case[k] if k < len(case) else "?"), key=known)
            elif api != mapi:
                k = next((i for i in range(max(len(api), len(mapi))) if i >= len(api) or i >= len(mapi) or api[i] != mapi[i]), 0)
                diverged.append((b0 + ci, k, case[k] if k < len(case) else "?", api[k] if k < len(api) else None, mapi[k] if k < len(mapi) else None))
            elif idiag != mdiag:
                diag_only += 1
                if diag_first is None:
                    k = next((i for i in sorted(set(idiag) | set(mdiag)) if idiag.get(i) != mdiag.get(i)), 0)
                    diag_first = (b0 + ci, k, case[k] if k < len(case) else "?", idiag.get(k), mdiag.get(k))
            if nontriv:
                distinct.add(hash(tuple(case)))
    if diverged and not rep.violations:
        ci, k, line, io, mo = diverged[0]
        small = ddmin(cases[ci], keep_init(lambda c: differs(impl, model, c)))
        p = rep.replay_file("idmap_diverge_%d.case" % ci, "# model and implementation differ at op %d: %s\n# impl : %s\n# model: %s\n# (correspondence IdMapModel<->idhash.c broken on %d cases; the spec oracle found no violation of the finite-map/alloc spec)\n" % (k, line, io, mo, len(diverged)) + "\n".join(small) + "\n")
        rep.violation(p, "correspondence IdMapModel<->idhash.c broken on %d cases; first: op %r impl=%r model=%r" % (len(diverged), line[:60], (io or "")[:120], (mo or "")[:120]), nofail=True)
    if diag_first and not diverged and not rep.violations:
        ci, k, line, io, mo = diag_first
        small = ddmin(cases[ci], keep_init(lambda c: diag_differs(impl, model, c)))
        p = rep.replay_file("idmap_private_%d.case" % ci, "# private state of the table differs from the model after op %d: %s\n# impl : %s\n# model: %s\n# (API-visible results and the finite-map/alloc spec agree on all cases; %d cases differ in cap/count/load/skips:\n#  the accounting theorems I1-I3 / idmap_load_accounting no longer describe this code)\n" % (k, line, io, mo, diag_only) + "\n".join(small) + "\n")
        rep.violation(p, "correspondence IdMapModel<->idhash.c broken on private state only (%d cases; cap/count/load/skip counters differ, every API-visible result agrees); first: op %r impl=%r model=%r" % (diag_only, line[:60], (io or "")[:160], (mo or "")[:160]), nofail=True)
    stats = {"idmap_evaluations": nevals, "idmap_cases": len(cases), "idmap_distinct_nontrivial": len(distinct),
             "idmap_op_histogram": hist, "idmap_classes": len(classes), "idmap_cap_histogram": dict(sorted(caps.items())),
             "idmap_model_impl_divergences": len(diverged), "idmap_diag_only_differences": diag_only,
             "idmap_spec_contradictions": spec_bad, "idmap_alloc_wrap_fixed_in_source": source_fixed(),
             "idmap_observations": ["nni_id_alloc's exhaustion test (id_count > max-min) counts keys stored by nni_id_set outside [lo,hi]: alloc can return NNG_ENOMEM while in-range ids are free (init 1 3; set 5; set d; alloc; alloc => rv=2); the spec states exactly that test. docs/ref/api/id_map.md says NNG_ENOSPC, the code returns NNG_ENOMEM."],
             "idmap_rule": "random op scripts on one nni_id_map (tiny ranges [lo,lo+r] r in {0,1,2,7} incl. the 2^64-1 edge, keys colliding mod 8..128, set/alloc/remove storms across the grow/shrink thresholds, the library's own ranges with cursor/random start near the wrap, scripted allocation failure) run on the real idhash.c (ASan/UBSan, assertions on) and on the extracted model; API-visible lines compared exactly, private state (diag) as diagnostic; every implementation observation judged by the extracted finite-map + cyclic-cursor spec; class = (op, result shape, table capacity after the op, fail flag)",
             "idmap_samples": [cases[0][:10], cases[len(cases) // 2][:10]]}
    return stats


# ---------------------------------------------------- standalone entry point
def coq_build_idmap(timeout=1500):
    """like vlib.coq_build but for IdMap/IdMapProps.v (the statements Properties_C18.v re-exports)"""
    res = {"ok": False, "log": "", "theorems": [], "axioms": {}, "bad_axioms": []}
    with Lock("coq"):
        coq_makefile()
        rc, o, e = sh("timeout %d make -k -j16 %s.vo" % (timeout, PROPS_FILE), cwd=COQ, timeout=timeout + 30)
        res["log"] = (o + e)[-6000:]
        if rc != 0:
            m = re.findall(r'File "([^"]+)", line (\d+)[^\n]*\n(?:[^\n]*\n)?Error:([^\n]*(?:\n[^\n]+)?)', o + e)
            res["failed_at"] = ["%s:%s %s" % (a, b, c.strip()) for a, b, c in m][:5]
            return res
        rc, o, e = sh("timeout 900 coqc -Q . NngV %s.v" % PROPS_FILE, cwd=COQ, timeout=930)
        if rc != 0:
            res["log"] = (o + e)[-6000:]
            return res
    src = open(os.path.join(COQ, PROPS_FILE + ".v")).read()
    names = re.findall(r"^\s*Print Assumptions (\w+)\.", src, re.M)
    blocks = [b for b in re.split(r"(?=^Closed under the global context|^Axioms:)", o, flags=re.M)
              if b.startswith("Closed") or b.startswith("Axioms:")]
    if len(blocks) != len(names):
        res["log"] = "Print Assumptions output count mismatch: %d vs %d" % (len(blocks), len(names))
        return res
    for n, b in zip(names, blocks):
        ax = [] if b.startswith("Closed") else re.findall(r"^([A-Za-z_][\w.']*)\s*:", b, re.M)
        res["axioms"][n] = ax
        res["bad_axioms"] += ["%s uses %s" % (n, a) for a in ax if a not in ALLOWED_AXIOMS and a.split(".")[-1] not in ALLOWED_AXIOMS]
    res["theorems"] = names
    decl = re.findall(r"^\s*(?:Theorem|Corollary)\s+(\w+)", src, re.M)
    res["undeclared"] = [t for t in decl if t not in names]
    res["ok"] = not res["bad_axioms"] and not res["undeclared"]
    return res


def run(tier, seed, replay=None):
    rep = Report("C18_idmap", tier, seed)
    ok, msg = gen_consts("c18")
    cb = coq_build_idmap()
    gate = [g for g in coq_gate() if g.startswith("IdMap/") or g.startswith("Gen/")]
    rep.proof_cov(cb, "make -C coq IdMap/IdMapProps.vo && coqc IdMap/IdMapProps.v (Print Assumptions) ; grep gate")
    proof_ok = ok and cb["ok"] and not gate
    model_build("idmap")
    bdir, err = nng_build("asan")
    if bdir is None:
        p = rep.replay_file("build_failed.txt", err)
        rep.violation(p, "nng does not build", nofail=True)
        return rep.finish()
    stats = run_idmap(rep, tier, random.Random(seed), bdir, replay)
    if not proof_ok and not rep.violations:
        proof_broken_report(rep, cb, "C18 id-map theorems do not check (%s)" % ("; ".join(gate[:3]) if gate else msg if not ok else "see log"))
    rep.cov.update(stats)
    rep.cov.update({"evaluations": stats.get("idmap_evaluations", 0), "distinct_nontrivial": stats.get("idmap_distinct_nontrivial", 0),
                    "rule": stats.get("idmap_rule", ""), "samples": stats.get("idmap_samples", [])})
    rep.assumptions += ["table indices, count, load and skip counters are unbounded nat in the model (uint32_t in the C): the 2^32 wrap of id_count*2 / new_cap*2 / id_load is not represented",
                        "values are abstract non-null pointers; nni_zalloc zero-fills; nni_random is an oracle input"]
    return rep.finish()


if __name__ == "__main__":
    tier = "quick"
    replay = None
    args = sys.argv[1:]
    while args:
        a = args.pop(0)
        if a in ("quick", "thorough"):
            tier = a
        elif a == "--replay":
            replay = args.pop(0)
    sys.exit(run(tier, int(os.environ.get("VERIF_SEED", "1")), replay))
