# C05 -- PUB/SUB: delivery iff a current subscription prefixes the body (DESIGN 5/C05)
#
# Three kinds of histories on the deterministic transport (harness/wb_proto.c), each
# run on the real library and on the extracted models (ocaml/drv_c05.ml):
#   SUB   cooked sub0 with the socket's own context and 1-4 further contexts
#   PUB   pub0 / pub0_raw with several subscriber pipes
#   XSUB  sub0_raw (no filtering, the socket's upper read queue)
# The spec oracle below is the property's words evaluated on the IMPLEMENTATION's
# observations only; it knows the topic sets, depths and PREFNEW settings from the
# script and never looks at the model.
import collections, os, random
from protolib import *

KNOWN_TEXT = {
    "sub-unsub-pollable": "sub.c sub0_ctx_unsubscribe purges the socket's queue without clearing the recv pollable: "
                          "the descriptor stays readable while a NONBLOCK receive returns NNG_EAGAIN",
    "msgq-raw-nonblock-eagain": "msgqueue.c nni_msgq_aio_get calls nni_aio_start before looking at the queue: raw SUB with a "
                                "queued message (recv descriptor readable) answers a NONBLOCK receive with NNG_EAGAIN",
}
known_hits = {}     # key -> (case, op index)
stats = collections.Counter()   # which clauses of the spec the run exercised (goes into the evidence)


def hx(s):
    return b"" if s == "-" else bytes.fromhex(s)


def matches(topics, body):
    """the property: some current subscription is a prefix of the body"""
    b = hx(body)
    return any(b.startswith(hx(t)) for t in topics)


# ------------------------------------------------------------------ generators
ALPHA = ["61", "62", "63"]
BINARY = ["00", "ff", "00ff", "ff00", "80", "0000", "ffff", "7f"]


def make_bodies(rng, n):
    """unique bodies: a short prefix over a 3-letter alphabet (or binary) followed by a 2-byte serial"""
    res = []
    for i in range(n):
        r = rng.random()
        if r < 0.12:
            pre = ""
        elif r < 0.80:
            pre = "".join(rng.choice(ALPHA) for _ in range(rng.randrange(1, 4)))
        else:
            pre = rng.choice(BINARY)
        res.append(pre + "%04x" % (0x8000 + i))
    return res


def rand_topic(rng, bodies, nmsg):
    r = rng.random()
    if r < 0.10:
        return "-"                                              # the empty topic
    if r < 0.38:
        return rng.choice(ALPHA)
    if r < 0.52:
        return "".join(rng.choice(ALPHA) for _ in range(rng.randrange(2, 4)))
    if r < 0.62:
        return rng.choice(BINARY)                               # binary topics
    b = bodies[min(len(bodies) - 1, max(0, nmsg + rng.randrange(-2, 6)))]
    if r < 0.80:
        k = rng.randrange(1, len(b) // 2 + 1)                   # a prefix of a recent / coming body, up to all of it
        return b[:2 * k]
    if r < 0.92:
        return b + rng.choice(["00", "61", "ff"])               # one byte longer than that body
    return "".join(rng.choice(ALPHA) for _ in range(8))         # longer than most bodies


def gen_sub_case(rng):
    lines = ["open s0 sub0"]
    bodies = make_bodies(rng, 160)
    nmsg, naio, npipes = 0, 0, 0
    small = rng.random() < 0.7
    depths = [1, 2, 3, 4, 5, 6, 7, 8] if small else [1, 2, 8, 16, 128]
    if rng.random() < 0.7:
        lines.append("setopt s0 recv-buffer int %d" % rng.choice(depths))
    if rng.random() < 0.5:
        lines.append("setopt s0 sub:prefnew bool %d" % rng.randrange(2))
    targets = ["s0"]
    topics = {"s0": []}
    free_ctx = [1, 2, 3, 4]
    for _ in range(rng.choice([0, 1, 1, 2, 3, 4])):
        c = free_ctx.pop(0)
        lines.append("ctx c%d s0" % c); targets.append("c%d" % c); topics["c%d" % c] = []
    for _ in range(rng.choice([1, 1, 2, 3])):
        lines.append("conn s0 32"); npipes += 1
    emptied = False
    for _ in range(rng.randrange(8, 70)):
        r = rng.random()
        t = rng.choice(targets)
        if r < 0.15:
            tp = rng.choice(topics[t]) if topics[t] and rng.random() < 0.15 else rand_topic(rng, bodies, nmsg)   # duplicates too
            lines.append("setopt %s topic sub %s" % (t, tp))
            if tp not in topics[t]:
                topics[t].append(tp)
        elif r < 0.25:
            if topics[t] and rng.random() < 0.8:
                tp = rng.choice(topics[t]); topics[t].remove(tp)
            else:
                tp = rand_topic(rng, bodies, nmsg)              # mostly unknown: NNG_ENOENT
                if tp in topics[t]:
                    topics[t].remove(tp)
            lines.append("setopt %s topic unsub %s" % (t, tp))
        elif r < 0.29 and nmsg + 12 < len(bodies):
            for _ in range(rng.randrange(3, 12)):                 # a burst: fills small buffers
                lines.append("inject p%d %s" % (rng.randrange(npipes), bodies[nmsg])); nmsg += 1
        elif r < 0.58 and nmsg < len(bodies):
            if rng.random() < 0.01 and not emptied:
                emptied = True
                lines.append("inject p%d -" % rng.randrange(npipes))      # the empty body
            else:
                lines.append("inject p%d %s" % (rng.randrange(npipes), bodies[nmsg])); nmsg += 1
        elif r < 0.72:
            lines.append("recvnb %s" % t)
        elif r < 0.79 and naio < 60:
            lines.append("recv %s a%d" % (t, naio)); naio += 1
        elif r < 0.81 and naio:
            lines.append("cancel a%d" % rng.randrange(naio))
        elif r < 0.86:
            lines.append("setopt %s recv-buffer int %d" % (t, rng.choice(depths + [0, 8193] if rng.random() < 0.15 else depths)))
        elif r < 0.89:
            lines.append("setopt %s sub:prefnew bool %d" % (t, rng.randrange(2)))
        elif r < 0.915 and free_ctx:
            c = free_ctx.pop(0)
            lines.append("ctx c%d s0" % c); targets.append("c%d" % c); topics["c%d" % c] = []
        elif r < 0.93 and len(targets) > 1:
            c = rng.choice(targets[1:]); targets.remove(c); del topics[c]
            lines.append("ctxclose %s" % c)
        elif r < 0.95 and npipes < 5:
            lines.append("conn s0 %d" % (32 if rng.random() < 0.8 else 33)); npipes += 1
        elif r < 0.965:
            lines.append("drop p%d" % rng.randrange(npipes))
        elif r < 0.975:
            lines.append("sendnb s0 - 00")
        elif r < 0.985:
            lines.append("setopt %s ttl-max int 3" % t)
        else:
            lines.append("poll")
    # drain what is buffered
    for t in targets:
        for _ in range(rng.choice([1, 3, 9])):
            lines.append("recvnb %s" % t)
    if rng.random() < 0.5:
        lines.append("close s0")
    return lines


def gen_pub_case(rng):
    lines = ["open s0 pub0%s" % ("_raw" if rng.random() < 0.25 else "")]
    nmsg, naio, npipes = 0, 0, 0
    depths = [1, 2, 3, 4, 5, 6, 7, 8]
    if rng.random() < 0.8:
        lines.append("setopt s0 send-buffer int %d" % rng.choice(depths))
    for _ in range(rng.randrange(6, 70)):
        r = rng.random()
        if r < 0.10 and npipes < 5:
            lines.append("conn s0 %d" % (33 if rng.random() < 0.9 else 32)); npipes += 1
        elif r < 0.48:
            nmsg += 1; lines.append("sendnb s0 - %04x" % (0x8000 + nmsg))
        elif r < 0.56 and naio < 60:
            nmsg += 1; lines.append("send s0 a%d - %04x" % (naio, 0x8000 + nmsg)); naio += 1
        elif r < 0.82 and npipes:
            lines.append("sent p%d%s" % (rng.randrange(npipes), " 31" if rng.random() < 0.04 else ""))
        elif r < 0.85 and npipes:
            lines.append("drop p%d" % rng.randrange(npipes))
        elif r < 0.87 and npipes:
            lines.append("inject p%d %02x" % (rng.randrange(npipes), rng.randrange(256)))
        elif r < 0.93:
            lines.append("setopt s0 send-buffer int %d" % rng.choice(depths + [0, 8193] if rng.random() < 0.15 else depths))
        elif r < 0.95:
            lines.append("recvnb s0")
        elif r < 0.96:
            lines.append("ctx c1 s0")
        else:
            lines.append("poll")
    for _ in range(10):
        for p in range(npipes):
            lines.append("sent p%d" % p)
    if rng.random() < 0.5:
        lines.append("close s0")
    return lines


def gen_xsub_case(rng):
    lines = ["open s0 sub0_raw"]
    nmsg, naio, npipes = 0, 0, 0
    if rng.random() < 0.7:
        lines.append("setopt s0 recv-buffer int %d" % rng.choice([0, 1, 2, 3, 4, 8]))
    for _ in range(rng.choice([1, 2, 3])):
        lines.append("conn s0 32"); npipes += 1
    for _ in range(rng.randrange(6, 50)):
        r = rng.random()
        if r < 0.40:
            nmsg += 1
            lines.append("inject p%d %s%04x" % (rng.randrange(npipes), rng.choice(["", "61", "6162", "00", "ff"]), 0x8000 + nmsg))
        elif r < 0.60 and naio < 60:
            lines.append("recv s0 a%d" % naio); naio += 1
        elif r < 0.70:
            lines.append("recvnb s0")
        elif r < 0.74 and naio:
            lines.append("cancel a%d" % rng.randrange(naio))
        elif r < 0.82:
            lines.append("setopt s0 recv-buffer int %d" % rng.choice([0, 1, 2, 3, 4, 8]))
        elif r < 0.86:
            lines.append("setopt s0 topic %s %s" % (rng.choice(["sub", "unsub"]), rng.choice(["-", "61"])))
        elif r < 0.88:
            lines.append("setopt s0 sub:prefnew bool 1")
        elif r < 0.92 and npipes < 5:
            lines.append("conn s0 %d" % (32 if rng.random() < 0.8 else 33)); npipes += 1
        elif r < 0.95:
            lines.append("drop p%d" % rng.randrange(npipes))
        elif r < 0.97:
            lines.append("ctx c1 s0")
        else:
            lines.append("poll")
    for _ in range(6):
        if naio < 62:
            lines.append("recv s0 a%d" % naio); naio += 1
    if rng.random() < 0.5:
        lines.append("close s0")
    return lines


# ------------------------------------------------------------------ the spec oracle
def check_done(k, o, expect):
    """completions of this step must be exactly the expected ones: aio -> (rv, body or None)"""
    got = {a: (rv, extra) for a, rv, extra in o["done"]}
    for a, (rv, body) in expect.items():
        if a not in got:
            return (k, "aio a%d did not complete (expected rv=%d%s)" % (a, rv, " with " + body if body else ""))
        grv, gex = got[a]
        if grv != rv:
            return (k, "aio a%d completed with %d, expected %d" % (a, grv, rv))
        if body is not None and gex != "-/" + body:
            return (k, "aio a%d received %s, expected body %s" % (a, gex, body))
    for a in got:
        if a not in expect:
            return (k, "aio a%d completed (%s) although nothing was due to it" % (a, got[a],))
    return None


def note_known(key, case, k):
    known_hits.setdefault(key, (case, k))


def oracle_sub(case, obs):
    def new(cap, pn):
        return {"topics": [], "q": [], "cap": cap, "pn": pn, "wait": []}
    ctxs = {"s0": new(128, True)}
    order = ["s0"]
    pipe_ok, npipes = {}, 0
    stale = False          # the socket's queue was last emptied by an unsubscribe purge
    arrived = []           # all bodies that reached the protocol, in arrival order
    got_by = {}            # target -> bodies handed to the application, in order
    closed = False
    for k, line in enumerate(case):
        t = line.split()
        o = obs[k] if k < len(obs) else None
        if o is None:
            return (k, "no observation")
        op = t[0]
        expect = {}

        def deliver(tgt, body):
            got_by.setdefault(tgt, []).append(body)

        if op == "conn":
            pipe_ok[npipes] = (t[2] == "32"); npipes += 1
        elif op == "ctx":
            if o["rv"] != 0:
                return (k, "nng_ctx_open failed on a SUB socket: %d" % o["rv"])
            ctxs[t[1]] = new(ctxs["s0"]["cap"], ctxs["s0"]["pn"]); order.append(t[1])
        elif op == "ctxclose":
            c = ctxs.pop(t[1]); order.remove(t[1])
            for a in c["wait"]:
                expect[a] = (7, None)
        elif op == "close":
            for c in ctxs.values():
                for a in c["wait"]:
                    expect[a] = (7, None)
                c["wait"] = []
            closed = True
        elif op == "setopt":
            c = ctxs[t[1]]
            name, ty, v = t[2], t[3], t[4]
            if ty == "sub":
                if o["rv"] != 0:
                    return (k, "subscribe failed: %d" % o["rv"])
                if v not in c["topics"]:
                    c["topics"].append(v)
                    stats["sub.subscribe" + (".empty" if v == "-" else "")] += 1
                else:
                    stats["sub.subscribe.duplicate"] += 1
            elif ty == "unsub":
                if v in c["topics"]:
                    if o["rv"] != 0:
                        return (k, "unsubscribe of a current topic failed: %d" % o["rv"])
                    c["topics"].remove(v)
                    before = len(c["q"])
                    c["q"] = [b for b in c["q"] if matches(c["topics"], b)]      # purge, order kept
                    stats["sub.unsubscribe"] += 1
                    stats["sub.unsubscribe.purged_msgs"] += before - len(c["q"])
                    stats["sub.unsubscribe.kept_msgs"] += len(c["q"])
                    if t[1] == "s0" and before and not c["q"]:
                        stale = True
                elif o["rv"] != 12:
                    return (k, "unsubscribe of an unknown topic returned %d, expected NNG_ENOENT" % o["rv"])
                else:
                    stats["sub.unsubscribe.enoent"] += 1
            elif name == "recv-buffer":
                n = int(v)
                if 1 <= n <= 8192:
                    if o["rv"] != 0:
                        return (k, "recv-buffer %d refused: %d" % (n, o["rv"]))
                    c["cap"] = n; c["q"] = c["q"][:n]
                elif o["rv"] != 3:
                    return (k, "recv-buffer %d outside 1..8192 returned %d, expected NNG_EINVAL" % (n, o["rv"]))
            elif name == "sub:prefnew":
                if o["rv"] != 0:
                    return (k, "sub:prefnew refused: %d" % o["rv"])
                c["pn"] = (v != "0")
            elif o["rv"] != 9:
                return (k, "unknown option returned %d, expected NNG_ENOTSUP" % o["rv"])
        elif op == "inject":
            i = int(t[1][1:]); body = t[2]
            if o["rv"] == 0:
                if not pipe_ok.get(i):
                    return (k, "a message was accepted from a peer that is not a publisher")
                if o["pipes"].get(i, {}).get("inbox", 0) != 0:
                    return (k, "the arriving message was not taken from the transport")
                arrived.append(body)
                for name_ in order:
                    c = ctxs[name_]
                    if not matches(c["topics"], body):
                        stats["sub.arrival.not_subscribed" + (".topic_longer" if any(len(hx(x)) > len(hx(body)) for x in c["topics"]) else "")] += 1
                        continue                                 # not subscribed: must not be seen by this context
                    if c["wait"]:
                        a = c["wait"].pop(0); expect[a] = (0, body); deliver(name_, body)
                        stats["sub.arrival.to_waiter"] += 1
                    elif len(c["q"]) < c["cap"]:
                        c["q"].append(body)
                        stats["sub.arrival.buffered"] += 1
                    elif c["pn"]:
                        c["q"].pop(0); c["q"].append(body)       # full, PREFNEW: exactly the oldest goes
                        stats["sub.arrival.full_drop_oldest.depth%d" % min(c["cap"], 9)] += 1
                    else:                                        # full, not PREFNEW: exactly the new one goes
                        stats["sub.arrival.full_drop_new.depth%d" % min(c["cap"], 9)] += 1
                    if name_ == "s0" and c["q"]:
                        stale = False
        elif op == "recvnb":
            c = ctxs[t[1]]
            if c["q"]:
                b = c["q"].pop(0)
                if o["rv"] != 0:
                    return (k, "non-blocking receive returned %d although %s is buffered for %s" % (o["rv"], b, t[1]))
                if o["got"] != "-/" + b:
                    return (k, "%s received %s, expected %s (oldest buffered)" % (t[1], o["got"], b))
                deliver(t[1], b)
                if t[1] == "s0" and not c["q"]:
                    stale = False
            elif o["rv"] != 8:
                return (k, "non-blocking receive on an empty %s returned %d (got=%s), expected NNG_EAGAIN" % (t[1], o["rv"], o["got"]))
        elif op == "recv":
            c = ctxs[t[1]]; a = int(t[2][1:])
            if c["q"]:
                b = c["q"].pop(0); expect[a] = (0, b); deliver(t[1], b)
                if t[1] == "s0" and not c["q"]:
                    stale = False
            else:
                c["wait"].append(a)
        elif op == "cancel":
            a = int(t[1][1:])
            for c in ctxs.values():
                if a in c["wait"]:
                    c["wait"].remove(a); expect[a] = (20, None)
        elif op == "sendnb":
            if o["rv"] != 9:
                return (k, "send on a SUB socket returned %d, expected NNG_ENOTSUP" % o["rv"])
        bad = check_done(k, o, expect)
        if bad:
            return bad
        if not closed:
            r, w = o["poll"].get(0, ("?", "?"))
            want = "1" if ctxs["s0"]["q"] else "0"
            if w != "x":
                return (k, "a SUB socket offers a send descriptor")
            if r != want:
                if r == "1" and stale:
                    note_known("sub-unsub-pollable", case, k)     # reported once, keyed; see run()
                else:
                    return (k, "recv descriptor shows %s but %s" % (r, "a message is buffered" if want == "1" else "a non-blocking receive would return NNG_EAGAIN"))
    # independent of the bookkeeping above: per receiver, what it got is a subsequence of what arrived
    # (nothing invented, altered, duplicated or reordered)
    for tgt, seq in got_by.items():
        it = iter(arrived)
        if not all(any(x == b for x in it) for b in seq):
            return (len(case) - 1, "%s received %s which is not a subsequence of the arrivals" % (tgt, seq[:6]))
    return None


def oracle_pub(case, obs):
    pipes, npipes, sendbuf = {}, 0, 16
    closed = False
    for k, line in enumerate(case):
        t = line.split()
        o = obs[k] if k < len(obs) else None
        if o is None:
            return (k, "no observation")
        op = t[0]
        expect = {}

        def fanout(body):
            for p in pipes.values():
                if p["closed"]:
                    continue
                if p["tx"] is None:
                    p["tx"] = body
                    stats["pub.direct"] += 1
                else:
                    if len(p["q"]) >= p["cap"]:
                        p["q"].pop(0)                             # full: the oldest queued goes
                        stats["pub.full_drop_oldest.depth%d" % min(p["cap"], 9)] += 1
                    p["q"].append(body)
                    stats["pub.queued"] += 1

        if op == "conn":
            pipes[npipes] = {"closed": t[2] != "33", "tx": None, "q": [], "cap": sendbuf}; npipes += 1
        elif op == "sendnb":
            if o["rv"] != 0:
                return (k, "a PUB send did not complete with success at once: rv=%d" % o["rv"])
            fanout(t[3])
        elif op == "send":
            expect[int(t[2][1:])] = (0, None)                     # completes in the same step, never queued
            fanout(t[4])
        elif op == "sent":
            i = int(t[1][1:]); p = pipes[i]
            if o["rv"] == 0:
                if p["closed"] or p["tx"] is None:
                    return (k, "a transport send was pending on p%d that the spec does not know" % i)
                if len(t) > 2 and t[2] != "0":
                    p["closed"] = True
                else:
                    p["tx"] = p["q"].pop(0) if p["q"] else None
            elif not p["closed"] and p["tx"] is not None:
                return (k, "p%d should have a transport send pending" % i)
        elif op == "drop":
            pipes[int(t[1][1:])]["closed"] = True
        elif op == "inject":
            if o["rv"] == 0:
                pipes[int(t[1][1:])]["closed"] = True             # a publisher hangs up on a talking subscriber
        elif op == "setopt":
            n = int(t[4])
            if 1 <= n <= 8192:
                if o["rv"] != 0:
                    return (k, "send-buffer %d refused: %d" % (n, o["rv"]))
                sendbuf = n
                for p in pipes.values():
                    if not p["closed"]:
                        p["cap"] = n; p["q"] = p["q"][:n]
            elif o["rv"] != 3:
                return (k, "send-buffer %d outside 1..8192 returned %d" % (n, o["rv"]))
        elif op == "recvnb":
            if o["rv"] != 9:
                return (k, "receive on a PUB socket returned %d" % o["rv"])
        elif op == "ctx":
            if o["rv"] != 9:
                return (k, "nng_ctx_open on a PUB socket returned %d" % o["rv"])
        elif op == "close":
            closed = True
        bad = check_done(k, o, expect)
        if bad:
            return bad
        if closed:
            continue
        for i, p in pipes.items():
            ob = o["pipes"].get(i)
            if ob is None:
                return (k, "pipe p%d missing from the observation" % i)
            if p["closed"]:
                if ob["st"] == "o":
                    return (k, "p%d should have been closed" % i)
                continue
            if ob["st"] != "o":
                return (k, "p%d was closed without reason" % i)
            if ob["nt"] > 1:
                return (k, "more than one transport send pending on p%d" % i)
            want = None if p["tx"] is None else "-/" + p["tx"]
            if ob["tx"] != want:
                return (k, "p%d carries %s, expected %s (per-pipe FIFO, each message once, oldest dropped when full)" % (i, ob["tx"], want))
        if o["poll"].get(0) != ("x", "1"):
            return (k, "PUB descriptors show %s, expected send always raised and no recv descriptor" % (o["poll"].get(0),))
    return None


def oracle_xsub(case, obs):
    q, cap, wait = [], 1, []
    pipe_ok, npipes = {}, 0
    closed = False
    for k, line in enumerate(case):
        t = line.split()
        o = obs[k] if k < len(obs) else None
        if o is None:
            return (k, "no observation")
        op = t[0]
        expect = {}
        if op == "conn":
            pipe_ok[npipes] = (t[2] == "32"); npipes += 1
        elif op == "inject":
            if o["rv"] == 0:
                if not pipe_ok.get(int(t[1][1:])):
                    return (k, "a message was accepted from a peer that is not a publisher")
                b = t[2]
                if wait:
                    expect[wait.pop(0)] = (0, b)                  # no filtering at all
                    stats["xsub.to_waiter"] += 1
                elif len(q) < cap:
                    q.append(b)
                    stats["xsub.buffered"] += 1
                else:                                            # flow control: the new one is discarded
                    stats["xsub.full_drop_new.depth%d" % min(cap, 9)] += 1
        elif op == "recv":
            a = int(t[2][1:])
            if q:
                expect[a] = (0, q.pop(0))
            else:
                wait.append(a)
        elif op == "recvnb":
            if q:
                if o["rv"] == 8:
                    note_known("msgq-raw-nonblock-eagain", case, k)
                elif o["rv"] != 0 or o["got"] != "-/" + q[0]:
                    return (k, "non-blocking receive: rv=%d got=%s, expected %s" % (o["rv"], o["got"], q[0]))
                else:
                    q.pop(0)
            elif o["rv"] != 8:
                return (k, "non-blocking receive on an empty raw SUB returned %d" % o["rv"])
        elif op == "cancel":
            a = int(t[1][1:])
            if a in wait:
                wait.remove(a); expect[a] = (20, None)
        elif op == "setopt":
            if t[2] == "recv-buffer":
                n = int(t[4])
                if o["rv"] != 0:
                    return (k, "recv-buffer %d refused: %d" % (n, o["rv"]))
                cap = n
                while len(q) > n + 1:
                    q.pop(0)
            elif o["rv"] != 9:
                return (k, "SUB option on a raw socket returned %d, expected NNG_ENOTSUP" % o["rv"])
        elif op == "ctx":
            if o["rv"] != 9:
                return (k, "nng_ctx_open on a raw SUB socket returned %d" % o["rv"])
        elif op == "close":
            for a in wait:
                expect[a] = (7, None)
            wait = []; closed = True
        bad = check_done(k, o, expect)
        if bad:
            return bad
        if not closed:
            r, w = o["poll"].get(0, ("?", "?"))
            if w != "x" or r != ("1" if q else "0"):
                return (k, "raw SUB descriptors show %s%s with %d message(s) queued" % (r, w, len(q)))
    return None


def oracle(case, obs, raw):
    proto = case[0].split()[2]
    if proto == "sub0":
        return oracle_sub(case, obs)
    if proto.startswith("pub0"):
        return oracle_pub(case, obs)
    return oracle_xsub(case, obs)


def gen_case(rng, i):
    r = i % 20
    if r < 12:
        return gen_sub_case(rng)
    if r < 16:
        return gen_pub_case(rng)
    return gen_xsub_case(rng)


FIXED_CASES = [
    # the refutation witness of Properties_C05.sub_poll_mirror_refuted, replayed on the library
    ["open s0 sub0", "conn s0 32", "setopt s0 topic sub 61", "inject p0 616263", "setopt s0 topic unsub 61", "recvnb s0"],
    # ... and of xsub_nb_succeeds_if_possible_refuted
    ["open s0 sub0_raw", "conn s0 32", "inject p0 01", "recvnb s0", "recv s0 a0"],
    # empty topic matches everything, no topic nothing, topic longer than the body never
    ["open s0 sub0", "ctx c1 s0", "ctx c2 s0", "conn s0 32", "setopt s0 topic sub -", "setopt c2 topic sub 616263",
     "inject p0 6162", "inject p0 -", "recvnb s0", "recvnb s0", "recvnb c1", "recvnb c2", "inject p0 61626364", "recvnb c2"],
]


def run(tier, seed, replay=None):
    rep = Report("C05", tier, seed)
    if os.environ.get("C05_ASSUME_KNOWN"):          # local override while the findings are neither repaired nor listed
        for key, text in KNOWN_TEXT.items():
            rep.known.setdefault(key, text)
    proof_ok, cb, bdir, why = std_prelude(rep, "C05", "Properties_C05", "c05", drivers=("c05",))
    if bdir is None:
        return rep.finish()
    rng = random.Random(seed)
    n = 1200 if tier == "quick" else 20000
    if replay:
        cases = [[l.strip() for l in open(replay) if l.strip() and not l.startswith("#")]]
    else:
        cases = load_corpus("C05") + FIXED_CASES + [gen_case(rng, i) for i in range(n)]
    known_hits.clear(); stats.clear()
    proto_run(rep, "C05", tier, bdir, cases, oracle, model_driver="c05", label="PUB/SUB")
    for key, (case, k) in sorted(known_hits.items()):
        p = rep.replay_file("known_%s.case" % key, "# %s (first seen at op %d: %s)\n" % (KNOWN_TEXT[key], k, case[k]) + "\n".join(case[:k + 1]) + "\n")
        rep.violation(p, "PUB/SUB: " + KNOWN_TEXT[key], key=key)
    if not proof_ok and not rep.violations:
        proof_broken_report(rep, cb, "C05 theorems do not check (%s)" % why)
    rep.cov["known_keys_hit"] = sorted(known_hits.keys())
    rep.cov["spec_clauses_exercised"] = dict(sorted(stats.items()))
    rep.cov["rule"] = ("random histories over the deterministic transport, same script on the real library and on the extracted models: "
                       "SUB (12/20): socket context + 0-4 contexts, depths 1..8 (sometimes 16/128), both PREFNEW, subscribe (empty / alphabet / binary / "
                       "prefix-of-a-body / longer-than-body / duplicate topics), unsubscribe (known and unknown), publish from 1-5 publishers with unique bodies, "
                       "blocking and non-blocking receives, cancels, context open/close, peer loss, option errors, final drain; "
                       "PUB (4/20): 0-5 subscriber pipes (right and wrong peer), depths 1..8, sends, transport completions one at a time, failures, resizes; "
                       "raw SUB (4/20): upper read queue depths 0..8, blocking / non-blocking receives, resizes.  "
                       "Oracle = the property evaluated on the implementation's observations; non-trivial = some message moves; distinct = distinct scripts")
    return rep.finish()
