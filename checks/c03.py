# C03 -- message ownership, memory safety, no leaks for any API usage (DESIGN 5/C03)
#
# What a run does (DESIGN 3.5):
#   1 gen_consts (drop-in tools/gen_consts_d/c03_bus.py), 2 coq build of Props/Properties_C03.v + gate,
#   3 model driver modeld_c03 (every protocol model + the EXTRACTED ownership ledger), 4 ASan/UBSan
#   build of nng from the current tree, harness/wb_ledger.c (accounting allocator through
#   nng_init(&params), hook H3 message counters),
#   5a LEDGER runs: scripts over the public API with the deterministic transport; the same script on
#      the library and on the model; after EVERY command the library's message references / objects
#      (hook H3, at a quiescent point) must equal the ledger's; nng_aio_get_msg after a failed send must
#      return the message; every free must carry the allocation's size; nothing alive after a close;
#   5b ALLOCATOR-BALANCE runs: API programs over real transports (inproc, ipc, tcp), devices included:
#      nothing timing dependent is compared -- only sanitizer reports, sized frees, message counters
#      after everything is closed, and 0 bytes outstanding after nng_fini;
#   5c MESSAGE-MANIPULATION runs (coq/Ledger/ChunkAlloc.v): programs of nng_msg_alloc / append / insert / trim / chop /
#      realloc / reserve / clear / header ops / dup / free on message slots, sizes straddling the head and tail room and
#      up to several KB, allocation failures injected; the driver prints the allocator events of every call
#      (A<size> / F<allocated size>:<size passed to free>) and what the allocator knows of the body block; the same
#      program on the extracted model; line by line equal.  The same operations mixed with sends and receives over
#      inproc / ipc / tcp (pub fan-out, pair, pipeline, req/rep, bus): received messages are adopted into the model with
#      the geometry the allocator reports, grown, sent on, freed.  In the ledger runs the sends build their messages
#      through seven allocation histories (mstyle) with bodies beyond the tail room.  EVERY free on EVERY thread is
#      compared with the allocation's size: `free-size-mismatch <alloc> <free>` on any line is a violation;
#   6 evidence.
import os, random, re, sys, time
from protolib import *

TAIL = re.compile(r"^(.*? poll=\S+)(?: refs=(-?\d+|\?) live=(-?\d+))?(.*)$")


def split_line(l):
    """-> (protocol part as protolib knows it, refs, live, rest)"""
    m = TAIL.match(l or "")
    if not m:
        return None, None, None, ""
    refs = None if m.group(2) in (None, "?") else int(m.group(2))
    live = None if m.group(3) is None else int(m.group(3))
    return m.group(1), refs, live, m.group(4) or ""


# ------------------------------------------------------------------ generators
PROTOS = ["req0", "rep0", "pub0", "sub0", "push0", "pull0", "surveyor0", "respondent0", "pair0", "pair1", "bus0"]
PEER = {"req0": 49, "rep0": 48, "pub0": 33, "sub0": 32, "push0": 81, "pull0": 80, "surveyor0": 99, "respondent0": 98,
        "pair0": 16, "pair1": 17, "bus0": 112}
HAS_CTX = {"req0", "rep0", "sub0", "surveyor0", "respondent0"}
# options the models know (setopt lines they answer like the library): name, type, values
OPTS = {
    "send-buffer": ("int", [0, 1, 2, 3, 8]),
    "recv-buffer": ("int", [0, 1, 2, 3, 8]),
    "ttl-max": ("int", [1, 2, 8, 15]),
    "req:resend-time": ("ms", [-1, 1000, 5000, 60000]),
    "req:resend-tick": ("ms", [100, 1000]),
    "surveyor:survey-time": ("ms", [-1, 1000, 5000]),
    "sub:prefnew": ("bool", [0, 1]),
}


def base(p):
    return p.replace("_raw", "")


class Tags:
    """unique message bodies: 4 bytes, the last never 0x80.. so that no body looks like a backtrace end"""
    def __init__(self, rng):
        self.n = rng.randrange(1, 200)

    def next(self):
        self.n += 1
        return "%02x%02x%02x%02x" % (0x11 + self.n % 0x60, (self.n >> 8) & 0x7f, self.n & 0xff, 0x21 + self.n % 0x50)


def exchange(proto, rng, tags):
    """a canonical exchange of the protocol: list of lines (first = open), with queued state on the way"""
    b = base(proto)
    raw = proto.endswith("_raw")
    L = ["open s0 %s" % proto]
    peer = PEER[b]
    if b == "req0":
        if raw:
            L += ["conn s0 49", "send s0 a0 80000001 " + tags.next(), "sent p0", "recv s0 a1", "inject p0 80000001" + tags.next(),
                  "send s0 a2 80000002 " + tags.next(), "send s0 a3 80000003 " + tags.next(), "sent p0", "inject p0 80000002" + tags.next(), "recvnb s0"]
        else:
            L += ["send s0 a0 - " + tags.next(), "conn s0 49", "sent p0", "recv s0 a1", "inject p0 [R0]" + tags.next(),
                  "send s0 a2 - " + tags.next(), "conn s0 49", "drop p0", "sent p1", "inject p1 [R1]" + tags.next(), "recvnb s0"]
    elif b == "rep0":
        if raw:
            L += ["conn s0 48", "inject p0 80000001" + tags.next(), "recv s0 a0", "send s0 a1 [P0]80000001 " + tags.next(),
                  "inject p0 80000002" + tags.next(), "inject p0 80000003" + tags.next(), "send s0 a2 [P0]80000002 " + tags.next(), "sent p0", "recvnb s0", "sent p0"]
        else:
            L += ["conn s0 48", "recv s0 a0", "inject p0 80000001" + tags.next(), "send s0 a1 - " + tags.next(),
                  "inject p0 80000002" + tags.next(), "recvnb s0", "send s0 a2 - " + tags.next(), "sent p0", "inject p0 80000003" + tags.next(), "sent p0"]
    elif b == "pub0":
        L += ["conn s0 33", "conn s0 33", "send s0 a0 - " + tags.next(), "send s0 a1 - " + tags.next(), "sendnb s0 - " + tags.next(),
              "sent p0", "send s0 a2 - " + tags.next(), "drop p1", "sent p0", "sent p0"]
    elif b == "sub0":
        if raw:
            L += ["conn s0 32", "inject p0 " + tags.next(), "inject p0 " + tags.next(), "recv s0 a0", "recv s0 a1", "recv s0 a2", "inject p0 " + tags.next(),
                  "inject p0 " + tags.next(), "inject p0 " + tags.next(), "recvnb s0"]
        else:
            L += ["setopt s0 x sub -", "ctx c0 s0", "setopt c0 x sub -", "conn s0 32", "inject p0 " + tags.next(), "inject p0 " + tags.next(),
                  "recv s0 a0", "recv c0 a1", "inject p0 " + tags.next(), "recv c0 a2", "recv c0 a3", "recvnb s0", "ctxclose c0"]
    elif b == "push0":
        L += ["setopt s0 send-buffer int 2", "send s0 a0 - " + tags.next(), "send s0 a1 - " + tags.next(), "send s0 a2 - " + tags.next(),
              "conn s0 81", "sent p0", "sendnb s0 - " + tags.next(), "sent p0", "sent p0", "sent p0"]
    elif b == "pull0":
        L += ["conn s0 80", "conn s0 80", "inject p0 " + tags.next(), "inject p1 " + tags.next(), "inject p0 " + tags.next(),
              "recv s0 a0", "recvnb s0", "recv s0 a1", "recv s0 a2", "inject p1 " + tags.next()]
    elif b == "surveyor0":
        if raw:
            L += ["conn s0 99", "conn s0 99", "send s0 a0 80000001 " + tags.next(), "send s0 a1 80000002 " + tags.next(), "sent p0",
                  "inject p0 80000001" + tags.next(), "recv s0 a2", "inject p1 80000001" + tags.next(), "inject p1 80000002" + tags.next(), "recvnb s0", "sent p1"]
        else:
            L += ["conn s0 99", "conn s0 99", "send s0 a0 - " + tags.next(), "recv s0 a1", "inject p0 [R0]" + tags.next(), "inject p1 [R0]" + tags.next(),
                  "sent p0", "recvnb s0", "send s0 a2 - " + tags.next(), "sent p1", "inject p1 [R1]" + tags.next(), "recvnb s0"]
    elif b == "respondent0":
        if raw:
            L += ["conn s0 98", "inject p0 80000001" + tags.next(), "recv s0 a0", "send s0 a1 [P0]80000001 " + tags.next(),
                  "inject p0 80000002" + tags.next(), "inject p0 80000003" + tags.next(), "send s0 a2 [P0]80000002 " + tags.next(), "sent p0", "recvnb s0", "sent p0"]
        else:
            L += ["conn s0 98", "recv s0 a0", "inject p0 80000001" + tags.next(), "send s0 a1 - " + tags.next(),
                  "inject p0 80000002" + tags.next(), "recv s0 a2", "send s0 a3 - " + tags.next(), "sent p0", "inject p0 80000003" + tags.next(), "sent p0"]
    elif b in ("pair0", "pair1"):
        hop = "00000001" if b == "pair1" else ""
        shdr = "00000000" if (b == "pair1" and raw) else "-"
        L += ["setopt s0 send-buffer int 2", "setopt s0 recv-buffer int 2", "send s0 a0 %s %s" % (shdr, tags.next()), "conn s0 %d" % peer,
              "send s0 a1 %s %s" % (shdr, tags.next()), "send s0 a2 %s %s" % (shdr, tags.next()), "inject p0 %s%s" % (hop, tags.next()),
              "inject p0 %s%s" % (hop, tags.next()), "inject p0 %s%s" % (hop, tags.next()), "inject p0 %s%s" % (hop, tags.next()),
              "sent p0", "recv s0 a3", "recvnb s0", "sent p0", "recv s0 a4"]
    elif b == "bus0":
        shdr = "-"
        L += ["conn s0 112", "conn s0 112", "send s0 a0 %s %s" % (shdr, tags.next()), "send s0 a1 %s %s" % (shdr, tags.next()),
              "inject p0 " + tags.next(), "inject p1 " + tags.next(), "recv s0 a2", "sent p0", "send s0 a3 %s %s" % (shdr, tags.next()), "recvnb s0", "sent p1", "sent p0"]
    return L


def opts_of(proto):
    b = base(proto)
    # (the socket core accepts recv-buffer / send-buffer on every socket; PushModel / PullModel answer ENOTSUP for the
    # buffer their protocol does not have -- a coarseness of those models, reported; not exercised here)
    names = {"push0": ["send-buffer", "ttl-max"], "pull0": ["ttl-max"]}.get(b, ["send-buffer", "recv-buffer", "ttl-max"])
    if b == "req0":
        names += ["req:resend-time", "req:resend-tick"]
    if b == "surveyor0":
        names += ["surveyor:survey-time"]
    if b == "sub0":
        names += ["sub:prefnew"]
    return names


def injections(proto, L, rng, tags):
    """everything that can be placed between two steps of the exchange"""
    inj = []
    for nm in opts_of(proto):
        ty, vals = OPTS[nm]
        for v in vals:
            inj.append("setopt s0 %s %s %d" % (nm, ty, v))
    aios = sorted({t for l in L for t in l.split() if re.fullmatch(r"a\d+", t)})
    for a in aios:
        inj += ["cancel " + a, "aiotmo %s 0" % a]
    inj += ["drop p0", "drop p1", "close s0", "advance 1500", "advance 70000", "sent p0 31", "sent p1 7"]
    if base(proto) in HAS_CTX and not proto.endswith("_raw"):
        inj += ["ctx c1 s0", "ctxclose c0"]
    if base(proto) == "sub0":
        inj += ["setopt s0 x unsub -", "setopt c0 x unsub -", "setopt s0 x sub " + "11"]
    return inj


def gen_injection_cases(rng, per_proto, protos=None):
    """option / cancel / close / peer-loss placed at EVERY position of every protocol's exchange"""
    cases = []
    all_protos = protos or [p + s for p in PROTOS for s in ("", "_raw")]
    for proto in all_protos:
        tags = Tags(rng)
        L = exchange(proto, rng, tags)
        inj = injections(proto, L, rng, tags)
        c0pos = next((k for k, l in enumerate(L) if l.startswith("ctx c0 ")), None)
        c0end = next((k for k, l in enumerate(L) if l.startswith("ctxclose c0")), len(L))

        def valid(i, x):
            if " c0" in x or x.endswith(" c0"):
                return c0pos is not None and c0pos < i <= c0end      # a context is used only while it is open
            return True
        combos = [(i, x) for i in range(1, len(L) + 1) for x in inj if valid(i, x)]
        rng.shuffle(combos)
        if per_proto is not None:
            # EVERY settable option value at EVERY position always; of the other injections: every position at
            # least once, every injection at least once, then random fill
            need_pos, need_inj, chosen = set(range(1, len(L) + 1)), set(inj), []
            for c in combos:
                if c[1].startswith("setopt ") or c[0] in need_pos or c[1] in need_inj:
                    chosen.append(c); need_pos.discard(c[0]); need_inj.discard(c[1])
            rest = [c for c in combos if c not in chosen]
            combos = chosen + rest[:max(0, per_proto - len(chosen))]
        for i, x in combos:
            if x.startswith("close"):
                c = L[:i] + [x]          # nothing is done on a closed socket (handle validity is C10's subject)
            elif x.startswith("ctxclose c0"):
                c = L[:i] + [x] + [l for l in L[i:] if " c0" not in l]      # ... nor on a closed context
            else:
                c = L[:i] + [x] + L[i:]
                if rng.random() < 0.5:
                    c = c + ["close s0"]
            cases.append(c)
        cases.append(L + ["close s0"])
    return cases


def gen_resize_cases(rng):
    """resizing a buffer that holds messages (the property's own example), in every geometry of the ring:
    a queue of depth c0 whose read index was ADVANCED by adv receives, FILLED again with k messages (so that
    for adv + k > slots the ring is wrapped), then resized to every smaller / larger depth, then drained
    and closed -- every protocol with a resizable receive queue (lmq: cooked sub / pair / bus; socket-level
    msgq: the raw sockets), and the same on the send side (push / pub / pair / bus per-pipe queues, raw uwq)"""
    cases = []
    wire = {"sub0_raw": "", "req0_raw": "80000001", "rep0_raw": "80000001", "surveyor0_raw": "80000001", "respondent0_raw": "80000001",
            "sub0": "", "pair0": "", "pair1": "00000001", "bus0": "", "bus0_raw": "", "pair1_raw": "00000001", "pair0_raw": ""}
    for proto, pre in wire.items():
        for c0 in (1, 2, 3, 8):
            for adv in (0, 1, 2, 3, 5):
                for fill in (1, 2, 3, 4, 9):
                    if fill > c0 + 2 or (c0 == 8 and adv not in (0, 3)):
                        continue
                    for new in (0, 1, 2, 4, 8, 16):
                        if new == c0:
                            continue
                        tags = Tags(rng)
                        L = ["open s0 " + proto]
                        if proto == "sub0":
                            L.append("setopt s0 x sub -")
                        L += ["setopt s0 recv-buffer int %d" % c0, "conn s0 %d" % PEER[base(proto)]]
                        for _ in range(adv):                      # move the ring's read index
                            L += ["inject p0 %s%s" % (pre, tags.next()), "recvnb s0"]
                        L += ["inject p0 %s%s" % (pre, tags.next()) for _ in range(fill)]
                        L += ["setopt s0 recv-buffer int %d" % new]
                        L += ["recvnb s0"] * min(fill, 3)
                        L += ["recv s0 a0", "inject p0 %s%s" % (pre, tags.next()), "recvnb s0"]
                        if rng.random() < 0.3:
                            L += ["drop p0"]
                        L += ["close s0"]
                        cases.append(L)
    for proto in ("push0", "pub0", "pair0", "pair1", "bus0", "req0_raw", "surveyor0_raw"):
        h = {"req0_raw": "80000001", "surveyor0_raw": "80000001"}.get(proto, "-")
        for c0 in (1, 2, 3, 8):
            for adv in (0, 1, 3):
                for fill in (1, 2, 4, 9):
                    if fill > c0 + 1:
                        continue
                    for new in (0, 1, 2, 4, 16):
                        if new == c0:
                            continue
                        tags = Tags(rng)
                        L = ["open s0 " + proto, "setopt s0 send-buffer int %d" % c0, "conn s0 %d" % PEER[base(proto)]]
                        na = 0
                        # the first send occupies the pipe; adv further sends go through the queue and out again (read index moves)
                        L.append("send s0 a%d %s %s" % (na, h, tags.next())); na += 1
                        for _ in range(adv):
                            L += ["send s0 a%d %s %s" % (na, h, tags.next()), "sent p0"]; na += 1
                        for _ in range(fill):
                            L.append("send s0 a%d %s %s" % (na, h, tags.next())); na += 1
                        L += ["setopt s0 send-buffer int %d" % new, "sent p0", "sent p0", "sent p0", "cancel a%d" % (na - 1), "sent p0", "close s0"]
                        cases.append(L)
    return cases


def gen_random_case(rng):
    """a random history on one socket of a random protocol: every kind of operation, any order"""
    proto = rng.choice(PROTOS) + ("_raw" if rng.random() < 0.3 else "")
    b = base(proto)
    raw = proto.endswith("_raw")
    tags = Tags(rng)
    L = ["open s0 " + proto]
    np_, na, nctx = 0, 0, 0
    ctxs = []
    hdrs = ["-"]
    if raw and b in ("req0", "surveyor0"):
        hdrs = ["80000001", "80000002", "-"]
    if raw and b == "pair1":
        hdrs = ["00000000", "00000001", "-"]

    def tgt():
        return rng.choice(ctxs) if ctxs and rng.random() < 0.5 else "s0"

    def wire():
        t = tags.next()
        if b in ("req0",) and not raw:
            return "[R%d]%s" % (rng.randrange(0, 3), t)
        if b in ("surveyor0",) and not raw:
            return "[R%d]%s" % (rng.randrange(0, 2), t)
        if b in ("rep0", "respondent0", "req0", "surveyor0"):
            return rng.choice(["80000001", "80000002", "00a1b2c380000003", "00a1b2c3"]) + t
        if b == "pair1":
            return rng.choice(["00000001", "00000002", "0000000f", "000000ff"]) + t
        return t

    for _ in range(rng.randrange(4, 50)):
        r = rng.random()
        if r < 0.10 and np_ < 5:
            L.append("conn s0 %d" % (PEER[b] if rng.random() < 0.95 else 1)); np_ += 1
        elif r < 0.24:
            h = rng.choice(hdrs)
            if raw and b in ("rep0", "respondent0", "bus0") and np_ and rng.random() < 0.8:
                h = "[P%d]" % rng.randrange(np_) + ("80000001" if b != "bus0" else "")
            if rng.random() < 0.5 and na < 60:
                L.append("send %s a%d %s %s" % (tgt(), na, h, tags.next())); na += 1
            else:
                L.append("sendnb %s %s %s" % (tgt(), h, tags.next()))
        elif r < 0.38:
            if rng.random() < 0.5 and na < 60:
                L.append("recv %s a%d" % (tgt(), na)); na += 1
            else:
                L.append("recvnb %s" % tgt())
        elif r < 0.55 and np_:
            L.append("inject p%d %s" % (rng.randrange(np_), wire()))
        elif r < 0.70 and np_:
            L.append("sent p%d%s" % (rng.randrange(np_), rng.choice(["", "", "", " 31", " 7"])))
        elif r < 0.74 and np_:
            L.append("drop p%d" % rng.randrange(np_))
        elif r < 0.80 and na:
            L.append("cancel a%d" % rng.randrange(na))
        elif r < 0.83 and na < 60:
            L.append("aiotmo a%d 0" % na)
        elif r < 0.90:
            nm = rng.choice(opts_of(proto))
            ty, vals = OPTS[nm]
            L.append("setopt %s %s %s %d" % (tgt() if nm in ("recv-buffer", "sub:prefnew", "req:resend-time", "surveyor:survey-time") else "s0", nm, ty, rng.choice(vals)))
        elif r < 0.93 and b in HAS_CTX and not raw and nctx < 4:
            L.append("ctx c%d s0" % nctx); ctxs.append("c%d" % nctx); nctx += 1
            if b == "sub0":
                L.append("setopt c%d x sub -" % (nctx - 1))
        elif r < 0.95 and ctxs:
            c = ctxs.pop(rng.randrange(len(ctxs))); L.append("ctxclose " + c)
        elif r < 0.97:
            L.append("advance %d" % rng.choice([1500, 3000, 70000]))
        elif b == "sub0" and not raw:
            L.append("setopt %s x %s -" % (tgt(), rng.choice(["sub", "unsub"])))
        else:
            L.append("poll")
    for c in ctxs:
        L.append("ctxclose " + c)
    if rng.random() < 0.8:
        L.append("close s0")
    return L


def borrowed_generators(rng):
    """the generators of the protocol properties' own checks (their scripts run unchanged through the
    ledger driver): C03's correspondence is 'the union of the PROTO runs' (DESIGN 5/C03)"""
    gens = []
    try:
        import c04, c05, c06, c07, c08, c09, c12
        gens = [
            lambda: c04.gen_req_case(rng, timed=False, allow_opt_change=True, allow_cancel_send=True),
            lambda: c04.gen_req_case(rng, timed=True, allow_opt_change=True, allow_cancel_send=True),
            lambda: c04.gen_rep_case(rng), lambda: c04.gen_xreq_case(rng), lambda: c04.gen_xrep_case(rng),
            lambda: c05.gen_sub_case(rng), lambda: c05.gen_pub_case(rng), lambda: c05.gen_xsub_case(rng),
            lambda: c06.gen_push_case(rng), lambda: c06.gen_pull_case(rng),
            lambda: c07.gen_surveyor_case(rng, True), lambda: c07.gen_respondent_case(rng, raw=False, nbfix=False, sbusyfix=True),
            lambda: c07.gen_respondent_case(rng, raw=True), lambda: c07.gen_xsurveyor_case(rng),
            lambda: c08.gen_case(rng), lambda: c09.gen_case(rng), lambda: c09.gen_fill_case(rng), lambda: c12.gen_fault_case(rng),
        ]
    except Exception as ex:      # another builder's generator changed: C03 still has its own
        sys.stderr.write("c03: borrowed generators unavailable (%r)\n" % (ex,))
    return gens


# ------------------------------------------------------------------ oracle (on the implementation's own observations)
RELTOK = re.compile(r"\[R\d+[+-]\d+\]")
MISMATCH = re.compile(r"free-size-mismatch (\d+) (\d+)")


def oracle(case, lines):
    """C03's words on what the library itself showed.  Returns (op index, text, key) or None."""
    for k, l in enumerate(lines):
        mm = MISMATCH.search(l)
        if mm:
            return (min(k, len(case) - 1), "a block of %s bytes was returned to the pluggable allocator as %s bytes (free-size-mismatch %s %s): "
                    "every block must go back with the size it was allocated with" % (mm.group(1), mm.group(2), mm.group(1), mm.group(2)), None)
        if l.startswith("m books=") and k < len(case) and k == len(case) - 1 and l.split()[1] != "books=0:0":
            return (k, "every message of the program has been freed and the allocator still has blocks outstanding (%s)" % l, None)
        if l.startswith("leaked "):
            return (len(case) - 1, "after everything was closed the library still holds message references (%s): a leak" % l, None)
        if l.startswith("allocbad "):
            return (len(case) - 1, "the pluggable allocator was handed a bad free: %s" % l, None)
        head, refs, live, rest = split_line(l)
        if head is None:
            continue
        if "NOT-QUIESCENT" in l:
            return (k, "library did not become quiescent within 10 s", None)
        if ":LOST" in head or ":OTHER" in head:
            return (k, "a failed send did not leave the message attached to the aio (nng_aio_get_msg did not return it)", None)
        if ":STALE" in head:
            return (k, "after a successful send the aio still points at the message the library has taken (a dangling pointer: nng_aio_get_msg returns freed memory)", None)
        if "ALLOC-BAD" in rest:
            return (k, "free with a size different from the allocation's (or of an unknown pointer): %s" % rest.strip(), None)
        if refs is not None and (refs < 0 or live < 0):
            return (k, "negative message reference / object count: a reference was released twice", None)
        if refs is not None and live > refs:
            return (k, "more live message objects than references", None)
        if refs is not None and k < len(case) and case[k].startswith("close ") and sum(1 for x in case[:k + 1] if x.startswith("open ")) == sum(1 for x in case[:k + 1] if x.startswith("close ")) and (refs != 0 or live != 0):
            return (k, "all sockets are closed and the library still holds %d message reference(s) / %d object(s): a leak" % (refs, live), None)
    return None


BUDGET = {"deadline": None, "skipped": []}


def over_budget(label):
    """on a tree that violates the property every batch may crash and be shrunk: stop once the run has what it
    needs (a few violations with replay files) or is out of time -- a VIOLATION must come out, not a kill"""
    if BUDGET["deadline"] is not None and time.time() > BUDGET["deadline"]:
        if label not in BUDGET["skipped"]:
            BUDGET["skipped"].append(label)
        return True
    return False


def fresh_impl(impl):
    """the scratch build directory may have been evicted by a concurrent run of another property: rebuild it"""
    if os.path.exists(impl):
        return impl
    bdir, err = nng_build("asan")
    if bdir is None:
        return impl
    w, err = wb_build(bdir, "wb_ledger.c")
    return w or impl


def ledger_run(rep, impl, model, cases, label, stats):
    impl = fresh_impl(impl)
    diverged, model_bad = [], []
    hist = rep.cov.setdefault("op_histogram", {})
    B = 120

    def spec_fails(c):
        o, crash = run_cases(impl, [c], timeout=120)
        return crash is not None or oracle(c, o[0]) is not None

    found = 0
    for b0 in range(0, len(cases), B):
        if found >= 4 or over_budget(label):
            break
        batch = cases[b0:b0 + B]
        iout, crash = run_cases(impl, batch, timeout=240)
        mout, mcrash = run_cases(model, batch, timeout=240)
        if crash:
            ci, rc, errtxt = crash
            small = batch[ci]
            found += 1
            try:
                if rc != -9 and found <= 2:      # (a hang is not shrunk: every probe would cost a timeout)
                    small = ddmin(batch[ci], lambda c: run_cases(impl, [c], timeout=20)[1] is not None, max_iter=30)
            except Exception:
                pass
            p = rep.replay_file("crash_%s_%d.case" % (label, b0 + ci), "# implementation crashed / hung / sanitizer report (rc=%s)\n# %s\n" % (rc, errtxt.replace("\n", "\n# ")) + "\n".join(small) + "\n")
            rep.violation(p, "%s: implementation crashed / hung / sanitizer report (rc=%s): %s" % (label, rc, san_summary(errtxt)))
            continue
        for ci, case in enumerate(batch):
            rep.cov["evaluations"] += len(case)
            stats["cases"] += 1
            for l in case:
                hist[l.split()[0]] = hist.get(l.split()[0], 0) + 1
            il, ml = iout[ci], mout[ci]
            maxrefs = 0
            for l in il:
                _, r, _, _ = split_line(l)
                if r:
                    maxrefs = max(maxrefs, r)
            if maxrefs > 0:
                stats["nontrivial"].add(hash(tuple(case)))
            stats["maxrefs"] = max(stats["maxrefs"], maxrefs)
            stats["failed_sends"] += sum(l.count(":kept") for l in il)
            bad = oracle(case, il)
            if bad:
                k, text, key = bad
                small = case
                found += 1
                if found > 6:
                    continue
                try:
                    if found <= 2:
                        small = ddmin(case, spec_fails, max_iter=40)
                except Exception:
                    pass
                p = rep.replay_file("spec_%s_%d.case" % (label, b0 + ci), "# %s at op %d (%s)\n" % (text, k, case[min(k, len(case) - 1)]) + "\n".join(small) + "\n")
                rep.violation(p, "%s: %s (op %d: %s)" % (label, text, k, case[min(k, len(case) - 1)][:100]), key=key)
                continue
            for k in range(len(case)):
                io = il[k] if k < len(il) else None
                mo = ml[k] if k < len(ml) else None
                if mo and ("LEDGER-BROKEN" in mo or " leak=" in mo):
                    model_bad.append((b0 + ci, k, case[k], io, mo))
                    break
                if io != mo:
                    diverged.append((b0 + ci, k, case[k], io, mo))
                    break
    if model_bad and not rep.violations:
        ci, k, line, io, mo = model_bad[0]
        p = rep.replay_file("ledger_broken_%s_%d.case" % (label, ci), "# the model's own ledger is violated at op %d: %s\n# impl : %s\n# model: %s\n" % (k, line, io, mo) + "\n".join(cases[ci]) + "\n")
        rep.violation(p, "%s: the ownership ledger of the MODEL is violated (a model or its view loses / duplicates a reference; %d cases); first: op %r\n impl =%r\n model=%r" % (label, len(model_bad), line, io, mo), nofail=True)
    if diverged and not rep.violations:
        ci, k, line, io, mo = diverged[0]
        p = rep.replay_file("diverge_%s_%d.case" % (label, ci), "# model and implementation differ at op %d: %s\n# impl : %s\n# model: %s\n# (%d cases diverge; the spec oracle found no violation)\n" % (k, line, io, mo, len(diverged)) + "\n".join(cases[ci]) + "\n")
        rep.violation(p, "%s: correspondence ledger model<->code broken on %d cases; first: op %r\n impl =%r\n model=%r" % (label, len(diverged), line, io, mo), nofail=True)
    stats["diverged"] += len(diverged)
    if cases:
        rep.cov["samples"] += [cases[0][:14], cases[len(cases) // 2][:14]]


# ------------------------------------------------------------------ real transports: allocator balance
PAIRS = [("req0", "rep0"), ("pub0", "sub0"), ("push0", "pull0"), ("surveyor0", "respondent0"), ("pair0", "pair0"), ("pair1", "pair1"),
         ("bus0", "bus0"), ("req0_raw", "rep0_raw"), ("pub0_raw", "sub0_raw"), ("push0_raw", "pull0_raw"), ("surveyor0_raw", "respondent0_raw"),
         ("pair1_raw", "pair1_raw"), ("bus0_raw", "bus0_raw")]
REAL_OPTS = [("recv-timeout", "ms", [0, 10, 100]), ("send-timeout", "ms", [0, 10, 100]), ("recv-size-max", "size", [0, 2, 1024]),
             ("reconnect-time-min", "ms", [1, 50]), ("reconnect-time-max", "ms", [0, 100]), ("recv-buffer", "int", [0, 1, 8]),
             ("send-buffer", "int", [0, 1, 8]), ("ttl-max", "int", [1, 8]), ("req:resend-time", "ms", [-1, 30, 1000]),
             ("req:resend-tick", "ms", [10, 1000]), ("surveyor:survey-time", "ms", [30, 1000]), ("sub:prefnew", "bool", [0, 1])]
_uniq = [0]


def url_pair(rng, tr):
    _uniq[0] += 1
    u = "%d_%d" % (os.getpid(), _uniq[0])
    if tr == "inproc":
        return "inproc://c03_" + u, "inproc://c03_" + u
    if tr == "ipc":
        return "ipc://%s/c03_%s.ipc" % (SCRATCH, u), "ipc://%s/c03_%s.ipc" % (SCRATCH, u)
    return "tcp://127.0.0.1:0", "tcp://127.0.0.1:@0"


def gen_program(rng, transports):
    """one API program: two (or three) sockets of matching protocols over a real transport; sends / receives in
    blocking-with-timeout and aio form, options, contexts, cancels, pipe / endpoint closes at random places."""
    a, bb = rng.choice(PAIRS)
    if rng.random() < 0.5:
        a, bb = bb, a
    tr = rng.choice(transports)
    lu, du = url_pair(rng, tr)
    tags = Tags(rng)
    L = ["xopen s0 " + a, "xopen s1 " + bb]
    if base(a) == "sub0" and not a.endswith("_raw"):
        L.append("setopt s0 x sub -")
    if base(bb) == "sub0" and not bb.endswith("_raw"):
        L.append("setopt s1 x sub -")
    L += ["listen s0 l0 " + lu, "dial s1 d0 " + du + (" nb" if rng.random() < 0.3 else ""), "msleep 20"]
    socks = ["s0", "s1"]
    ctxs = []
    na = 0

    def hdr(p):
        if p in ("req0_raw", "surveyor0_raw"):
            return "8000000%d" % rng.randrange(1, 4)
        if p == "pair1_raw":
            return "00000000"
        return "-"

    proto_of = {"s0": a, "s1": bb}
    for _ in range(rng.randrange(6, 28)):
        r = rng.random()
        s = rng.choice(socks)
        p = proto_of[s]
        t = rng.choice([c for c in ctxs if c[1] == s] or [(s, s)])[0] if rng.random() < 0.4 else s
        if r < 0.27:
            L.append("bsend %s %s %s %d" % (t, hdr(p), tags.next(), rng.choice([0, 5, 40])))
        elif r < 0.30:
            L.append("bufsend %s %s" % (s, tags.next()))
        elif r < 0.52:
            L.append("brecv %s %d" % (t, rng.choice([0, 5, 40])))
        elif r < 0.55:
            L.append("bufrecv %s %d" % (s, rng.choice([0, 2, 64])))
        elif r < 0.63 and na < 40:
            L.append("send %s a%d %s %s" % (t, na, hdr(p), tags.next())); na += 1
        elif r < 0.70 and na < 40:
            L.append("recv %s a%d" % (t, na)); na += 1
        elif r < 0.75 and na:
            L.append(rng.choice(["cancel a%d", "astop a%d", "await a%d 20"]) % rng.randrange(na))
        elif r < 0.85:
            nm, ty, vals = rng.choice(REAL_OPTS)
            L.append("setopt %s %s %s %d" % (s, nm, ty, rng.choice(vals)))
        elif r < 0.88 and base(p) in HAS_CTX and not p.endswith("_raw") and len(ctxs) < 4:
            c = "c%d" % len(ctxs)
            ctxs.append((c, s)); L.append("ctx %s %s" % (c, s))
            if base(p) == "sub0":
                L.append("setopt %s x sub -" % c)
        elif r < 0.91:
            L.append("pclose " + s)
        elif r < 0.93:
            L.append(rng.choice(["lclose l0", "dclose d0"]))
        elif r < 0.95:
            L.append("msleep %d" % rng.choice([1, 5, 30]))
            if tr in ("tcp", "ipc") and "s0" in socks and rng.random() < 0.6:
                # a peer that is lost in mid-message (the transport holds a partially received message)
                ann = rng.choice([1, 10, 1000, 70000])
                L.append("rawpeer l0 %d %d %d %d" % (PEER[base(a)], ann, rng.choice([0, 1, min(ann - 1, 10), ann - 1]), rng.choice([1, 5, 20])))
        elif r < 0.97 and len(socks) > 1:
            x = socks.pop(rng.randrange(len(socks))); L.append("close " + x)
            ctxs = [c for c in ctxs if c[1] != x]
        else:
            L.append("poll")
    L.append("settle")
    return L


def gen_midmsg_programs(rng):
    """every protocol's socket listening on tcp and on ipc; plain-socket peers that complete the handshake, announce a
    message, send a part of it (nothing, one byte, all but one) and die; a healthy peer next to them"""
    progs = []
    for tr in ("tcp", "ipc"):
        for p in PROTOS + ["req0_raw", "rep0_raw", "sub0_raw", "pull0_raw", "pair1_raw", "bus0_raw"]:
            lu, du = url_pair(rng, tr)
            L = ["xopen s0 " + p]
            if p == "sub0":
                L.append("setopt s0 x sub -")
            L.append("listen s0 l0 " + lu)
            for ann, snd in [(1000, 10), (8, 0), (70000, 69999), (3, 2)]:
                L.append("rawpeer l0 %d %d %d %d" % (PEER[base(p)], ann, snd, rng.choice([2, 5, 15])))
                L.append("brecv s0 %d" % rng.choice([0, 5]))
            L += ["rawpeer l0 %d 4 4 5" % PEER[base(p)], "brecv s0 20", rng.choice(["close s0", "lclose l0", "msleep 5"]), "settle"]
            progs.append(L)
    return progs


def gen_device_program(rng, transports):
    """a device between two raw sockets, clients on both sides, the device stopped mid-traffic"""
    fa, fb, ca, cb = rng.choice([("rep0_raw", "req0_raw", "req0", "rep0"), ("pull0_raw", "push0_raw", "push0", "pull0"),
                                 ("sub0_raw", "pub0_raw", "pub0", "sub0"), ("pair1_raw", "pair1_raw", "pair1", "pair1"),
                                 ("respondent0_raw", "surveyor0_raw", "surveyor0", "respondent0"), ("bus0_raw", "bus0_raw", "bus0", "bus0")])
    tr = rng.choice(transports)
    _uniq[0] += 1
    tags = Tags(rng)
    u1 = "inproc://c03dev_%d_%da" % (os.getpid(), _uniq[0])
    u2 = "inproc://c03dev_%d_%db" % (os.getpid(), _uniq[0])
    if tr == "ipc":
        u1 = "ipc://%s/c03dev_%d_%da.ipc" % (SCRATCH, os.getpid(), _uniq[0])
    L = ["xopen s0 " + fa, "xopen s1 " + fb, "listen s0 l0 " + u1, "listen s1 l1 " + u2, "device a60 s0 s1",
         "xopen s2 " + ca, "xopen s3 " + cb]
    if cb == "sub0":
        L.append("setopt s3 x sub -")
    L += ["dial s2 d0 " + u1, "dial s3 d1 " + u2, "msleep 20"]
    for _ in range(rng.randrange(3, 14)):
        r = rng.random()
        if r < 0.4:
            L.append("bsend s2 - %s %d" % (tags.next(), rng.choice([5, 40])))
        elif r < 0.7:
            L.append("brecv s3 %d" % rng.choice([5, 40]))
        elif r < 0.8:
            L.append("bsend s3 - %s 10" % tags.next())
        elif r < 0.9:
            L.append("brecv s2 10")
        else:
            L.append("setopt s%d %s int %d" % (rng.randrange(2), rng.choice(["recv-buffer", "send-buffer", "ttl-max"]), rng.choice([1, 2, 8])))
    L.append(rng.choice(["devstop a60", "devstop a60 cancel", "close s0", "close s1"]))
    L += ["bsend s2 - %s 5" % tags.next(), "brecv s3 5", "settle"]
    return L


def gen_device_stress(rng, k):
    """a device socket closed / the device stopped while requests are in flight (the window in which a path's
    completed receive is overtaken by the abort of its aio: core/device.c)"""
    _uniq[0] += 1
    tags = Tags(rng)
    fa, fb, ca, cb = rng.choice([("rep0_raw", "req0_raw", "req0", "rep0"), ("sub0_raw", "pub0_raw", "pub0", "sub0"),
                                 ("pull0_raw", "push0_raw", "push0", "pull0")])
    u1 = "ipc://%s/c03st_%d_%da.ipc" % (SCRATCH, os.getpid(), _uniq[0]) if rng.random() < 0.6 else "inproc://c03st_%d_%da" % (os.getpid(), _uniq[0])
    u2 = "inproc://c03st_%d_%db" % (os.getpid(), _uniq[0])
    L = ["xopen s0 " + fa, "xopen s1 " + fb, "listen s0 l0 " + u1, "listen s1 l1 " + u2, "device a60 s0 s1", "xopen s2 " + ca, "xopen s3 " + cb]
    if cb == "sub0":
        L.append("setopt s3 x sub -")
    L += ["dial s2 d0 " + u1, "dial s3 d1 " + u2, "msleep 10"]
    for _ in range(rng.randrange(1, 5)):
        L.append("bsend s2 - %s %d" % (tags.next(), rng.choice([5, 40])))
        L.append("brecv s3 %d" % rng.choice([5, 40]))
        if ca == "req0" and rng.random() < 0.6:
            L.append("bsend s3 - %s 10" % tags.next())
            if rng.random() < 0.5:
                L.append("brecv s2 10")
    L.append("send s2 a1 - " + tags.next())
    L.append(rng.choice(["devstop a60", "devstop a60 cancel", "close s1", "close s0", "close s1"]))
    L += ["bsend s2 - %s 5" % tags.next(), "brecv s3 5", "settle"]
    return L


def balance_run(rep, impl, programs, stats, B=25, tmo=90, collect=None):
    """programs over real transports: judge only what cannot depend on timing"""
    impl = fresh_impl(impl)
    found = 0
    for b0 in range(0, len(programs), B):
        if found >= 3 or over_budget("balance"):
            break
        batch = programs[b0:b0 + B]
        out, crash = run_cases(impl, batch, timeout=tmo)
        script = []
        for k, c in enumerate(batch):
            script.append("mark %d" % k); script.extend(c)
        if crash:
            ci, rc, errtxt = crash
            if rc == -9 and "ERROR:" not in errtxt and "runtime error" not in errtxt:
                # the process hung without any sanitizer report.  (Seen until /repo 781a263: device_cb closed its sockets
                # from a pipe's completion callback and the reaper waited for that very callback in pipe_stop ->
                # nni_aio_stop.)  Not an ownership defect in itself, but everything the process held is never
                # released: reported, with the batch as replay.
                stats["hangs"] = stats.get("hangs", 0) + 1
                found += 1
                p = rep.replay_file("hang_real_%d.case" % (b0 + ci), "# the process did not finish within %d s and printed no sanitizer report: a hang (deadlock) of the library\n" % tmo + "\n".join(script) + "\n")
                rep.violation(p, "real transports: the library hung (no sanitizer report; %d programs, %d s): nothing it holds is released any more" % (len(batch), tmo))
                continue
            found += 1
            p = rep.replay_file("crash_real_%d.case" % (b0 + ci), "# implementation crashed / sanitizer report (rc=%s) in a program over a real transport\n# (replay: the whole batch, one process)\n# %s\n" % (rc, errtxt.replace("\n", "\n# ")) + "\n".join(script) + "\n")
            rep.violation(p, "real transports: crash / sanitizer report (rc=%s): %s" % (rc, san_summary(errtxt)))
            continue
        for ci, c in enumerate(batch):
            stats["programs"] += 1
            rep.cov["evaluations"] += len(c)
            if collect is not None:
                collect.append((c, out[ci]))
            for l in out[ci]:
                bad = None
                mm = MISMATCH.search(l)
                if mm:
                    bad = "a block of %s bytes was returned to the pluggable allocator as %s bytes (free-size-mismatch %s %s)" % (mm.group(1), mm.group(2), mm.group(1), mm.group(2))
                elif l.startswith("leaked "):
                    bad = "after everything was closed the library still holds message references (%s)" % l
                elif l.startswith("allocbad ") or "ALLOC-BAD" in l:
                    bad = "bad free handed to the pluggable allocator: %s" % l
                elif l.startswith("x LOST") or ":LOST" in l:
                    bad = "a failed send did not leave the message attached to the aio"
                if bad:
                    key = None
                    found += 1
                    p = rep.replay_file("real_%d.case" % (b0 + ci), "# %s\n" % bad + "\n".join(c) + "\n")
                    rep.violation(p, "real transports: " + bad, key=key)
                    break
    # the balance at nng_fini: one more process, all programs, then the fini line
    return


def fini_check(rep, impl, programs, stats, key=None, tmo=300):
    if over_budget("fini") or len(rep.violations) >= 6:
        return
    impl = fresh_impl(impl)
    script = []
    for k, c in enumerate(programs):
        script.append("mark %d" % k); script.extend(c)
    script.append("mark %d" % len(programs))
    rc, out, err = run_prog(impl, "\n".join(script) + "\n", timeout=tmo)
    fin = [l for l in out if l.startswith("fini ")]
    if rc == -9 and "ERROR:" not in (err or "") and not fin:
        stats["hangs"] = stats.get("hangs", 0) + 1
        p = rep.replay_file("hang_fini.case", "# the allocator-balance process hung (no sanitizer report)\n" + "\n".join(script) + "\n")
        rep.violation(p, "allocator balance run: the library hung before nng_fini returned (no sanitizer report)")
        return
    if rc != 0 or not fin:
        p = rep.replay_file("fini_crash.case", "# rc=%s %s\n" % (rc, (err or "")[-2000:].replace("\n", "\n# ")) + "\n".join(script) + "\n")
        rep.violation(p, "allocator balance run: crash / sanitizer report / no fini line (rc=%s): %s" % (rc, san_summary(err)))
        return
    m = re.match(r"fini outstanding=(-?\d+)/(-?\d+) allocs=(\d+) frees=(\d+) badsize=(\d+) badptr=(\d+) msgrefs=(-?\d+) msglive=(-?\d+) lost=(\d+)", fin[0])
    stats["fini"] = fin[0]
    if not m:
        return
    ob, obl, al, fr, bs, bp, mr, ml, lost = [int(x) for x in m.groups()]
    stats["allocs"] = stats.get("allocs", 0) + al
    if ob != 0 or obl != 0 or bs != 0 or bp != 0 or mr != 0 or ml != 0:
        p = rep.replay_file("fini_balance.case", "# %s\n# %s\n" % (fin[0], "\n# ".join(l for l in out if l.startswith("outstanding"))) + "\n".join(script) + "\n")
        only_msgs = (bs == 0 and bp == 0)
        rep.violation(p, "after nng_fini the pluggable allocator is not balanced: %s" % fin[0], key=(key if only_msgs else None))



# ------------------------------------------------------------------ the message-manipulation family
MSIZES = [0, 1, 2, 7, 8, 9, 15, 16, 17, 24, 31, 32, 33, 39, 40, 41, 47, 48, 56, 63, 64, 65, 72, 100, 127, 128, 129, 255, 256, 257, 300,
          511, 512, 513, 1000, 1015, 1016, 1023, 1024, 1025, 2047, 2048, 2049, 3000, 4095, 4096, 4097, 5000, 8192, 9000]
MSMALL = [0, 1, 4, 8, 16, 31, 32, 33, 64]
PADS = [30, 33, 61, 100, 300, 1000]


def msz(rng):
    return rng.choice(MSIZES) if rng.random() < 0.7 else rng.randrange(0, 10000)


def gen_msg_ops(rng, k, n, fail=True):
    """n random operations of the message API on slot m<k> (the slot may be empty: those answer ENOENT on both sides)"""
    L = []
    for _ in range(n):
        r = rng.random()
        if fail and rng.random() < 0.06:
            L.append("mfail %d" % rng.randrange(2))
        if r < 0.20:
            L.append("mappend m%d %d" % (k, msz(rng)))
        elif r < 0.38:
            L.append("minsert m%d %d" % (k, msz(rng)))
        elif r < 0.46:
            L.append("mtrim m%d %d" % (k, rng.choice(MSMALL) if rng.random() < 0.7 else msz(rng)))
        elif r < 0.54:
            L.append("mchop m%d %d" % (k, rng.choice(MSMALL) if rng.random() < 0.7 else msz(rng)))
        elif r < 0.64:
            L.append("mrealloc m%d %d" % (k, msz(rng)))
        elif r < 0.74:
            L.append("mreserve m%d %d" % (k, msz(rng)))
        elif r < 0.77:
            L.append("mclear m%d" % k)
        elif r < 0.83:
            L.append("mhappend m%d %d" % (k, rng.choice([0, 4, 8, 31, 32, 33, 60, 64, 65])))
        elif r < 0.88:
            L.append("mhinsert m%d %d" % (k, rng.choice([0, 4, 8, 32, 64, 65])))
        elif r < 0.92:
            L.append("mhtrim m%d %d" % (k, rng.choice([0, 4, 8, 32, 64])))
        elif r < 0.96:
            L.append("mhchop m%d %d" % (k, rng.choice([0, 4, 8, 32, 64])))
        else:
            L.append("mhclear m%d" % k)
    return L


def gen_msg_program(rng, ssz):
    """message operations only: every line is compared with the model, the books must be empty at the end"""
    ns = rng.choice([1, 2, 3, 4])
    L = ["mssz %d" % ssz]
    for _ in range(rng.randrange(3, 14)):
        k = rng.randrange(ns)
        r = rng.random()
        if r < 0.30:
            if rng.random() < 0.1:
                L.append("mfail %d" % rng.randrange(2))
            L.append("malloc m%d %d" % (k, msz(rng)))
        elif r < 0.75:
            L += gen_msg_ops(rng, k, rng.randrange(1, 6))
        elif r < 0.88:
            if rng.random() < 0.1:
                L.append("mfail %d" % rng.randrange(2))
            L.append("mdup m%d m%d" % (k, rng.randrange(ns + 1)))
        else:
            L.append("mfree m%d" % k)
    for k in range(ns + 1):
        L.append("mfree m%d" % k)
    L.append("mbooks")
    return L


def msg_edge_programs(ssz):
    """the deterministic part: every allocation size x every growth size through append / insert / reserve / realloc"""
    progs = []
    for a in [0, 1, 4, 16, 31, 32, 33, 64, 1000, 1023, 1024, 1025, 2048, 4096, 5000]:
        for op in ("mappend", "minsert", "mreserve", "mrealloc"):
            L = ["mssz %d" % ssz]
            for i, g in enumerate([0, 1, 31, 32, 33, 64, 65, 100, 300, 1024, 4096]):
                L += ["malloc m0 %d" % a, "%s m0 %d" % (op, g), "%s m0 %d" % (op, g), "mdup m0 m1", "minsert m1 %d" % (g + 1), "mfree m0", "mfree m1"]
            L.append("mbooks")
            progs.append(L)
    return progs


TRAVEL = [("pub0", "sub0"), ("pair1", "pair1"), ("pair0", "pair0"), ("push0", "pull0"), ("req0", "rep0"), ("bus0", "bus0"),
          ("surveyor0", "respondent0")]


def gen_msg_travel(rng, transports, ssz):
    """grown messages travel: built in a slot by message operations, sent over a real transport (pub fan-out to two
    sockets and a context, pair, pipeline, req/rep, bus, survey), received into slots, grown again, sent on or freed"""
    a, bb = rng.choice(TRAVEL)
    tr = rng.choice(transports)
    lu, du = url_pair(rng, tr)
    L = ["mssz %d" % ssz, "xopen s0 " + a, "xopen s1 " + bb]
    rx = ["s1"]
    if bb == "sub0":
        L += ["setopt s1 x sub -", "xopen s2 sub0", "setopt s2 x sub -", "ctx c0 s2", "setopt c0 x sub -"]
        rx = ["s1", "s2", "c0"]
    L += ["listen s0 l0 " + lu, "dial s1 d0 " + du]
    if bb == "sub0":
        L.append("dial s2 d1 " + du)
    L.append("msleep 30")
    if rng.random() < 0.5:
        L.append("mstyle %d" % rng.randrange(1, 7))
    for rnd in range(rng.randrange(1, 4)):
        L.append("malloc m0 %d" % msz(rng))
        L += gen_msg_ops(rng, 0, rng.randrange(0, 4), fail=False)
        if rng.random() < 0.3:
            L += ["mdup m0 m5", "mfree m5"]
        L.append("msend s0 m0 40")
        for i, t in enumerate(rx):
            L.append("mrecv %s m%d 40" % (t, i + 1))
            L += gen_msg_ops(rng, i + 1, rng.randrange(1, 4), fail=False)
        if a in ("pair1", "pair0", "req0", "bus0", "surveyor0") and rng.random() < 0.7:
            # the grown message goes back
            L += ["msend s1 m1 40", "mrecv s0 m4 40"] + gen_msg_ops(rng, 4, 2, fail=False) + ["mfree m4"]
        if rng.random() < 0.3:
            L.append("bsend s0 - %s 20" % ("21" * rng.choice(PADS)))
            L.append("brecv s1 20")
        for k in range(6):
            L.append("mfree m%d" % k)
    L.append("settle")
    return L


def fatten(case, rng):
    """ledger scripts: let some sends carry bodies beyond the 32 bytes of tail room and build them through the other
    allocation histories of the driver (mstyle): the protocol models are value based, they follow"""
    out = []
    hit = False
    for l in case:
        t = l.split()
        if t and t[0] in ("send", "sendnb") and t[-1] != "-" and "[" not in t[-1] and rng.random() < 0.25:
            n = rng.choice(PADS)
            t[-1] = t[-1] + "".join("%02x" % (0x21 + (i * 7) % 0x5e) for i in range(n))
            l = " ".join(t)
            hit = True
        out.append(l)
    if hit or rng.random() < 0.3:
        pos = 0
        out.insert(pos, "mstyle %d" % rng.randrange(0, 7))
    return out


def travel_diff(rep, model, collected, ssz, stats):
    """the m-lines of programs over real transports against the model: sends that succeeded take the message out of
    the model's books (mgive), received messages enter them with the geometry the allocator reported (madopt)"""
    scripts, expect = [], []
    for c, out in collected:
        sc, ex = ["mssz %d" % ssz], [None]
        it = iter(out)
        for cmd in c:
            l = next(it, None)
            while l is not None and l.startswith("x LOST"):
                l = next(it, None)
            if l is None:
                break
            op = cmd.split()[0]
            t = cmd.split()
            if op == "msend":
                if l.startswith("x sent=1"):
                    sc.append("mgive " + t[2]); ex.append(None)
            elif op == "mrecv":
                m = re.match(r"x adopt=(\d+):(\d+):(\d+):(\d+)", l)
                if m:
                    sc.append("madopt %s %s %s %s %s" % (t[2], m.group(1), m.group(2), m.group(3), m.group(4))); ex.append(None)
            elif op in MOPS:
                sc.append(cmd); ex.append(l)
        scripts.append(sc); expect.append(ex)
    if not scripts:
        return
    mout, mcrash = run_cases(model, scripts, timeout=240)
    bad = []
    for i, (sc, ex) in enumerate(zip(scripts, expect)):
        for k, e in enumerate(ex):
            if e is None:
                continue
            stats["msg_lines"] = stats.get("msg_lines", 0) + 1
            mo = mout[i][k] if k < len(mout[i]) else None
            if mo != e:
                bad.append((i, k, sc[k], e, mo))
                break
    if bad and not rep.violations:
        i, k, line, io, mo = bad[0]
        p = rep.replay_file("diverge_travel_%d.case" % i, "# message operations in a program over a real transport: model and implementation differ at %r\n# impl : %s\n# model: %s\n# (%d programs diverge)\n" % (line, io, mo, len(bad)) + "\n".join(collected[i][0]) + "\n")
        rep.violation(p, "msg-travel: correspondence chunk model<->code broken on %d programs; first: op %r\n impl =%r\n model=%r" % (len(bad), line, io, mo), nofail=True)
    stats["diverged"] += len(bad)


MOPS = {"malloc", "mappend", "minsert", "mtrim", "mchop", "mrealloc", "mreserve", "mclear", "mhappend", "mhinsert", "mhtrim", "mhchop",
        "mhclear", "mdup", "mfree"}


# ------------------------------------------------------------------ the run
def run(tier, seed, replay=None):
    rep = Report("C03", tier, seed, level="proof (ledger) + observed (memory safety)")
    phase = rep.cov.setdefault("phase_s", {})
    t0 = time.time()

    def tick(name):
        nonlocal t0
        phase[name] = round(time.time() - t0, 1)
        t0 = time.time()
    ok, msg = gen_consts("c03")
    cb = coq_build("Properties_C03", timeout=2400)
    gate = coq_gate()
    rep.proof_cov(cb, "make -C coq Props/Properties_C03.vo && coqc Props/Properties_C03.v (Print Assumptions) ; grep gate")
    proof_ok = ok and cb["ok"] and not gate
    why = "; ".join(gate[:3]) if gate else (msg if not ok else "see log")
    tick("coq")
    model_build("c03")
    tick("model_build")
    bdir, err = nng_build("asan")
    if bdir is None:
        p = rep.replay_file("build_failed.txt", err)
        rep.violation(p, "nng does not build", nofail=True)
        return rep.finish()
    impl, err = wb_build(bdir, "wb_ledger.c")
    if impl is None:
        p = rep.replay_file("wb_ledger_build.txt", err)
        rep.violation(p, "the C03 driver does not build against the current tree (correspondence broken)", nofail=True)
        return rep.finish()
    tick("nng_build")
    model = model_bin("modeld_c03")
    rc, out, _ = run_prog(impl, "mark 0\n", timeout=60)
    hello = out[0] if out else ""
    h3 = "h3=1" in hello
    rep.cov["hook_h3"] = h3
    rep.cov["driver_hello"] = hello
    rng = random.Random(seed)
    sm = re.search(r"msgsize=(\d+)", hello)
    ssz = int(sm.group(1)) if sm and int(sm.group(1)) > 0 else 248

    def with_ssz(c):       # stored cases name the struct size of the build they were written on
        return [("mssz %d" % ssz) if l.startswith("mssz ") else l for l in c]
    BUDGET["deadline"] = time.time() + (240 if tier == "quick" else 2700)
    BUDGET["skipped"] = []
    stats = {"cases": 0, "nontrivial": set(), "maxrefs": 0, "failed_sends": 0, "diverged": 0, "programs": 0}
    os.makedirs(SCRATCH, exist_ok=True)
    if replay:
        case = with_ssz([l.strip() for l in open(replay) if l.strip() and not l.startswith("#")])
        if any(l.split()[0] in ("xopen", "listen", "dial", "bsend", "brecv", "device") for l in case):
            progs, cur = [], []
            for l in case:
                if l.startswith("mark "):
                    if cur:
                        progs.append(cur)
                    cur = []
                else:
                    cur.append(l)
            if cur:
                progs.append(cur)
            balance_run(rep, impl, progs, stats)
            fini_check(rep, impl, progs, stats)
        else:
            ledger_run(rep, impl, model, [case], "replay", stats)
    else:
        quick = tier == "quick"
        # (1) corpus, (2) option / cancel / close / loss at every position of every protocol's exchange
        cases = [with_ssz(c) for c in load_corpus("C03")]
        inj = [fatten(c, rng) for c in gen_injection_cases(rng, 40 if quick else None)]
        rsz = gen_resize_cases(rng)
        if quick:
            rsz = rng.sample(rsz, 2500)
        ledger_run(rep, impl, model, cases + rsz, "resize", stats)
        ledger_run(rep, impl, model, inj, "inject", stats)
        rep.cov["injection_cases"] = len(inj)
        tick("inject")
        # (3) random histories, every protocol; (4) the other protocol checks' own generators
        rnd = [fatten(gen_random_case(rng), rng) for _ in range(700 if quick else 25000)]
        ledger_run(rep, impl, model, rnd, "random", stats)
        tick("random")
        gens = borrowed_generators(rng)
        bor = []
        for g in gens:
            for _ in range(12 if quick else 400):
                try:
                    c = g()
                    c = c[0] if isinstance(c, tuple) else c
                    # finite timeouts of the user's own aio are not part of the ledger driver's language (only 0 is)
                    # id tokens relative to a request id ([R<n>+k], C04's later extension of wb_proto.c) are not part of
                    # the ledger driver's language either
                    if any(RELTOK.search(l) for l in c):
                        continue
                    bor.append(fatten([l for l in c if not (l.startswith("aiotmo ") and l.split()[2] != "0")], rng))
                except Exception:
                    pass
        ledger_run(rep, impl, model, bor, "borrowed", stats)
        rep.cov["borrowed_cases"] = len(bor)
        tick("borrowed")
        # (4b) the message-manipulation family: allocator events of every call, model <-> code line by line
        mprogs = msg_edge_programs(ssz) + [gen_msg_program(rng, ssz) for _ in range(1200 if quick else 30000)]
        ledger_run(rep, impl, model, mprogs, "msgops", stats)
        rep.cov["msg_programs"] = len(mprogs)
        tick("msgops")
        # (5) programs over real transports + devices: allocator balance
        transports = ["inproc", "ipc", "tcp"]
        trav = [gen_msg_travel(rng, transports, ssz) for _ in range(36 if quick else 2500)]
        coll = []
        balance_run(rep, impl, trav, stats, B=18, tmo=60, collect=coll)
        travel_diff(rep, model, coll, ssz, stats)
        rep.cov["msg_travel_programs"] = len(trav)
        rep.cov["msg_travel_lines_compared"] = stats.get("msg_lines", 0)
        tick("msgtravel")
        plain = gen_midmsg_programs(rng) + [gen_program(rng, transports) for _ in range(140 if quick else 6500)]
        devs = [gen_device_program(rng, ["inproc", "ipc"]) for _ in range(24 if quick else 1500)]
        devs += [gen_device_stress(rng, k) for k in range(18 if quick else 1200)]
        balance_run(rep, impl, plain, stats)
        # device tear-down under traffic: small processes and a short timeout keep a hang of the library cheap
        balance_run(rep, impl, devs, stats, B=6, tmo=25)
        tick("balance")
        fini_check(rep, impl, plain[:100 if quick else 600] + trav[:12 if quick else 300], stats)
        for k in range(0, len(devs) if not quick else 12, 6):
            fini_check(rep, impl, devs[k:k + 6], stats, tmo=25)
        tick("fini")
    if not proof_ok and not rep.violations:
        proof_broken_report(rep, cb, "C03 theorems do not check (%s)" % why)
    rep.cov["distinct_nontrivial"] = len(stats["nontrivial"])
    rep.cov["cases"] = stats["cases"]
    rep.cov["real_transport_programs"] = stats["programs"]
    rep.cov["max_library_refs_seen"] = stats["maxrefs"]
    rep.cov["failed_sends_checked"] = stats["failed_sends"]
    rep.cov["model_impl_divergences"] = stats["diverged"]
    rep.cov["fini_line"] = stats.get("fini", "")
    rep.cov["hangs"] = stats.get("hangs", 0)
    rep.cov["phases_cut_short_by_time_budget"] = list(BUDGET["skipped"])
    rep.cov["rule"] = ("ledger runs: scripts on one socket of every protocol (cooked and raw) over the deterministic transport -- "
                       "each protocol's canonical exchange with every settable option value / cancel / zero-timeout aio / peer loss / "
                       "failed transport send / context open+close / clock advance / socket close inserted at EVERY position, random histories, "
                       "and the generators of C04-C09/C12 -- run on the library (ASan+UBSan, accounting allocator installed through nng_init params, "
                       "hook H3) and on the extracted models with the extracted ledger; after every command: refs/live equal, failed sends keep their "
                       "message, sized frees, nothing alive after close.  balance runs: API programs over inproc/ipc/tcp (blocking, aio, contexts, "
                       "options, pipe/listener/dialer close, devices started and stopped): only sanitizers, sized frees, counters after close, "
                       "0 bytes outstanding after nng_fini are judged (nothing timing dependent).  non-trivial = the library held a message at some point.  "
                       "message-manipulation runs: nng_msg_alloc / append / insert / trim / chop / realloc / reserve / clear / header ops / dup / free "
                       "on slots (every allocation size x growth size across the head / tail room and the 1024 power-of-two rule, random programs, "
                       "injected allocation failures), the allocator events A<size> / F<alloc>:<freed-as> of every call and the body block's real "
                       "size and head room compared line by line with the extracted chunk model (Ledger/ChunkAlloc.v); the same operations on "
                       "messages that travel over inproc/ipc/tcp (pub fan-out, pair, pipeline, req/rep, bus, survey); sends of the ledger runs build "
                       "bodies of 30..1000 extra bytes through 7 allocation histories; any free on any thread whose size differs from the "
                       "allocation's is the observation free-size-mismatch <alloc> <free> = violation")
    rep.assumptions += ["memory safety proper (use-after-free / out-of-bounds inside code that the models do not cover) is OBSERVED by ASan/UBSan on the generated programs, not proved",
                        "identity of references inside a protocol is by body bytes (the models are value based)"]
    return rep.finish()
