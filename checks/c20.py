# C20 -- a failed allocation yields a clean error, never a crash, hang or leak
# (DESIGN 5/C20).  Level: proof ONLY for the modelled allocation sites (coq/AllocFail:
# nni_msg alloc/dup/grow paths, idhash resize, lmq/msgq init+resize, nng_url_parse/clone,
# SUB subscribe/unsubscribe, the lock structure of ws_read_finish_msg); a generated site
# table for the syntactic obligation "result tested before first use"; and FAULT
# ENUMERATION (not proof) over API programs: every k-th allocation failed, one at a time.
#
#   (1) gen_consts -> Coq build of Props/Properties_C20 + gate
#   (2) site table: every site checked or explicitly justified; unchecked sites are findings
#   (3) WB: op scripts on msg / idmap / lmq / msgq / url / sub with "fail the k-th
#       allocation" for every k; model (ocaml/drv_c20.ml) and library (harness/wb_allocfail.c)
#       fail at the same k; allocation events (sizes!) are part of the comparison
#   (4) API k-sweep (harness/wb_c20api.c): no crash / sanitizer report / hang, clean error
#       codes, recovery, nng_fini balances the accounting allocator to zero
import concurrent.futures, json, os, random, re, subprocess, sys, time

if __name__ == "__main__":
    sys.path.insert(0, os.path.join(os.path.dirname(os.path.dirname(os.path.abspath(__file__))), "lib"))
from vlib import *

PROP = "C20"
NPROC = 6
API_TIMEOUT = 40

# ------------------------------------------------------------------ API k-sweep
QUICK_PROGRAMS = ["init", "url", "msg", "idmap", "opts", "pair0:inproc", "reqrep:tcp", "pubsub:ipc",
                  "subctx:inproc", "stats:inproc", "pipeline:ws", "ctx:inproc"]


def api_run(binpath, prog, k):
    """one process: program `prog`, k-th allocation fails.  Returns dict."""
    env = dict(os.environ, **ASAN_ENV)
    env["ASAN_OPTIONS"] += ":detect_leaks=0"      # the accounting allocator is the leak detector here
    env["UBSAN_OPTIONS"] += ":abort_on_error=1"   # so that the harness' SIGABRT handler can print the injected stack
    t0 = time.time()
    try:
        p = subprocess.run([binpath, prog, str(k), str(k)], capture_output=True, text=True, timeout=API_TIMEOUT, env=env,
                           cwd=SCRATCH)
        rc, out, err = p.returncode, p.stdout, p.stderr
    except subprocess.TimeoutExpired as ex:
        rc = -9
        out = ex.stdout.decode(errors="replace") if isinstance(ex.stdout, bytes) else (ex.stdout or "")
        err = ex.stderr.decode(errors="replace") if isinstance(ex.stderr, bytes) else (ex.stderr or "")
    r = {"prog": prog, "k": k, "rc": rc, "out": out, "err": err, "wall": time.time() - t0, "hit": None, "count": None,
         "verdict": None, "first": None, "step": "", "badsize": 0, "live": "0/0"}
    m = re.search(r"^K (\d+) hit=(\d) count=(\d+) live=(\S+) badfree=(\d+) badsize=(\d+) first=(-?\d+) verdict=(\S+)", out, re.M)
    if m:
        r.update(hit=int(m.group(2)), count=int(m.group(3)), live=m.group(4), badfree=int(m.group(5)),
                 badsize=int(m.group(6)), first=int(m.group(7)), verdict=m.group(8))
        ms = re.search(r"verdict-step: (.*)", out) or re.search(r"first-failing-step: (.*)", out)
        if ms:
            r["step"] = ms.group(1).strip()
    elif re.search(r"^K \d+ HANG", out, re.M) or rc == -9:
        r["verdict"] = "HANG"
    elif re.search(r"^K \d+ ABORT", out, re.M):
        r["verdict"] = "ABORT"
    else:
        r["verdict"] = "CRASH"
    return r


_sym_cache = {}


def symbolize(binpath, err):
    """function names of the injected failure's stack (innermost first), library frames only"""
    m = re.search(r"INJECT-STACK[^\n]*\n(.*?)INJECT-STACK-END", err, re.S)
    if not m:
        return []
    offs = re.findall(re.escape(os.path.basename(binpath)) + r"\(\+(0x[0-9a-f]+)\)", m.group(1))
    if not offs:
        return []
    key = (binpath, tuple(offs))
    if key in _sym_cache:
        return _sym_cache[key]
    rc, o, e = sh(["addr2line", "-f", "-e", binpath] + offs, timeout=60)
    lines = o.splitlines()
    res = []
    for i in range(0, len(lines) - 1, 2):
        fn, loc = lines[i], lines[i + 1]
        if fn in ("inject", "acct_malloc", "acct_calloc"):
            continue
        res.append("%s@%s" % (fn, re.sub(r"^.*/(src|harness)/", r"\1/", loc).split(" ")[0]))
    _sym_cache[key] = res
    return res


def crash_site(err):
    """(summary line, top library frame) of a sanitizer report / panic"""
    m = re.search(r"^(\S+:\d+:\d+): runtime error: ([^\n]*)", err, re.M)
    if m:
        return "UBSan %s %s" % (re.sub(r"^.*/src/", "src/", m.group(1)), m.group(2)[:80])
    m = re.search(r"ERROR: AddressSanitizer: (\S+)", err)
    if m:
        kind = m.group(1)
        fr = re.findall(r"^\s+#\d+ 0x[0-9a-f]+ in (\S+) (\S+)", err, re.M)
        loc = ""
        for fn, where in fr:
            if "/src/" in where:
                loc = "%s %s" % (fn, re.sub(r"^.*/src/", "src/", where))
                break
        return "ASan %s in %s" % (kind, loc)
    m = re.search(r"panic: ([^\n]*)", err)
    if m:
        return "panic " + re.sub(r"^.*/src/", "src/", m.group(1))[:120]
    return (err.strip().splitlines() or ["?"])[0][:120]


def api_signature(binpath, r):
    """cluster key of a non-OK run: what went wrong, where, and which allocation was failed"""
    inj = symbolize(binpath, r["err"])
    lib = [f for f in inj if not f.startswith(("nni_alloc@", "nni_zalloc@", "nng_alloc@")) and "harness/" not in f]
    injfn = lib[0].split("@")[0] if lib else "?"
    inj2 = ">".join(f.split("@")[0] for f in lib[:3])
    v = r["verdict"]
    if v in ("CRASH", "ABORT"):
        what = crash_site(r["err"] + "\n" + r["out"])
    elif v == "HANG":
        what = "hang (watchdog)"
    elif v == "LEAK":
        sizes = sorted(int(x) for x in re.findall(r"LIVE block of (\d+) bytes", r["err"]))
        what = "leak of %s" % r["live"]
    elif v.startswith(("BADRV", "NORECOVER")):
        what = "%s at step %s" % (v, r["step"][:60])
    else:
        what = v
    return {"verdict": v, "what": what, "inject_fn": injfn, "inject_path": inj2, "inject_stack": inj[:10]}


def api_sweep(binpath, programs, rep, log=None):
    """every k of every program, NPROC processes.  Returns (runs, findings) where findings
    is a dict signature-text -> list of runs."""
    runs = []
    base = {}
    with concurrent.futures.ThreadPoolExecutor(max_workers=NPROC) as ex:
        # baseline: count the allocations (3 times: background threads make the count vary)
        futs = {ex.submit(api_run, binpath, p, 0): p for p in programs for _ in range(2)}
        for f in concurrent.futures.as_completed(futs):
            r = f.result()
            base.setdefault(r["prog"], []).append(r)
        jobs = []
        for p in programs:
            counts = [r["count"] for r in base[p] if r["count"] is not None]
            n = max(counts) if counts else 0
            for k in range(1, n + 3):
                jobs.append((p, k))
        futs = [ex.submit(api_run, binpath, p, k) for p, k in jobs]
        for f in concurrent.futures.as_completed(futs):
            runs.append(f.result())
    return base, runs


KNOWN_KEYS = [
    # (key, predicate on signature dict) -- genuine defects of the pinned tree found by this check;
    # each is reported through Report.violation(key=...) so that a `known:` line turns it into KNOWN-FINDING
]
