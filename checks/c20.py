# C20 -- a failed allocation yields a clean error, never a crash, hang or leak
# (DESIGN 5/C20).  Level: proof ONLY for the modelled allocation sites (coq/AllocFail:
# nni_msg alloc/dup/grow paths, idhash resize, lmq/msgq init+resize, nng_url_parse/clone,
# SUB subscribe/unsubscribe, the lock structure of ws_read_finish_msg); a generated site
# table for the syntactic obligation "result tested before first use"; and FAULT
# ENUMERATION (not proof) over API programs: every k-th allocation failed, one at a time.
#
#   (1) gen_consts -> Coq build of Props/Properties_C20 + gate
#   (2) site table: every site checked or explicitly justified; unchecked sites are findings
#   (3) WB: op scripts on msg / idmap / lmq / msgq / url / sub with "fail the k-th
#       allocation" for every k; model (ocaml/drv_c20.ml) and library (harness/wb_allocfail.c)
#       fail at the same k; allocation events (sizes!) are part of the comparison
#   (4) API k-sweep (harness/wb_c20api.c): no crash / sanitizer report / hang, clean error
#       codes, recovery, nng_fini balances the accounting allocator to zero
import concurrent.futures, hashlib, json, os, random, re, subprocess, sys, time

if __name__ == "__main__":
    sys.path.insert(0, os.path.join(os.path.dirname(os.path.dirname(os.path.abspath(__file__))), "lib"))
from vlib import *

PROP = "C20"
NPROC = 6
API_TIMEOUT = 40

# ------------------------------------------------------------------ API k-sweep
QUICK_PROGRAMS = ["init", "url", "msg", "idmap", "opts", "pair0:inproc", "reqrep:tcp", "pubsub:ipc",
                  "subctx:inproc", "stats:inproc", "pipeline:ws", "ctx:inproc",
                  # HTTP URIs beyond the inline buffer; WebSocket messages of several fragments whose
                  # payload the receiver checks byte for byte (intact or not at all, for every k)
                  "httpuri", "bigpair200k:ws", "bigreqrep70k:ws",
                  # HTTP error pages; nng_init with several threads of each kind; raw sockets and
                  # polyamorous PAIR1, whose per-pipe state allocates (pipe_init can fail)
                  "httperr", "init:t2e2p2r2", "init:t3e3p3r3", "init:t1e3p1r2",
                  "xrep:tcp", "xresp:inproc", "xsurv:inproc", "xreq:inproc", "poly:inproc"]


def api_run(binpath, prog, k):
    """one process: program `prog`, k-th allocation fails.  Returns dict."""
    env = dict(os.environ, **ASAN_ENV)
    env["ASAN_OPTIONS"] += ":detect_leaks=0"      # the accounting allocator is the leak detector here
    env["UBSAN_OPTIONS"] += ":abort_on_error=1"   # so that the harness' SIGABRT handler can print the injected stack
    t0 = time.time()
    try:
        p = subprocess.run([binpath, prog, str(k), str(k)], capture_output=True, text=True, timeout=API_TIMEOUT, env=env,
                           cwd=SCRATCH)
        rc, out, err = p.returncode, p.stdout, p.stderr
    except subprocess.TimeoutExpired as ex:
        rc = -9
        out = ex.stdout.decode(errors="replace") if isinstance(ex.stdout, bytes) else (ex.stdout or "")
        err = ex.stderr.decode(errors="replace") if isinstance(ex.stderr, bytes) else (ex.stderr or "")
    r = {"prog": prog, "k": k, "rc": rc, "out": out, "err": err, "wall": time.time() - t0, "hit": None, "count": None,
         "verdict": None, "first": None, "step": "", "badsize": 0, "live": "0/0"}
    m = re.search(r"^K (\d+) hit=(\d) count=(\d+) live=(\S+) badfree=(\d+) badsize=(\d+) first=(-?\d+) verdict=(\S+)", out, re.M)
    if m:
        r.update(hit=int(m.group(2)), count=int(m.group(3)), live=m.group(4), badfree=int(m.group(5)),
                 badsize=int(m.group(6)), first=int(m.group(7)), verdict=m.group(8))
        ms = re.search(r"verdict-step: (.*)", out) or re.search(r"first-failing-step: (.*)", out)
        if ms:
            r["step"] = ms.group(1).strip()
    elif re.search(r"^K \d+ HANG", out, re.M) or rc == -9:
        r["verdict"] = "HANG"
    elif re.search(r"^K \d+ ABORT", out, re.M):
        r["verdict"] = "ABORT"
    else:
        r["verdict"] = "CRASH"
    return r


_sym_cache = {}


def symbolize(binpath, err):
    """function names of the injected failure's stack (innermost first), library frames only"""
    m = re.search(r"INJECT-STACK[^\n]*\n(.*?)INJECT-STACK-END", err, re.S)
    if not m:
        return []
    offs = re.findall(re.escape(os.path.basename(binpath)) + r"\(\+(0x[0-9a-f]+)\)", m.group(1))
    if not offs:
        return []
    key = (binpath, tuple(offs))
    if key in _sym_cache:
        return _sym_cache[key]
    rc, o, e = sh(["addr2line", "-f", "-e", binpath] + offs, timeout=60)
    lines = o.splitlines()
    res = []
    for i in range(0, len(lines) - 1, 2):
        fn, loc = lines[i], lines[i + 1]
        if fn in ("inject", "acct_malloc", "acct_calloc"):
            continue
        res.append("%s@%s" % (fn, re.sub(r"^.*/(src|harness)/", r"\1/", loc).split(" ")[0]))
    _sym_cache[key] = res
    return res


def crash_site(err):
    """(summary line, top library frame) of a sanitizer report / panic"""
    m = re.search(r"^(\S+:\d+:\d+): runtime error: ([^\n]*)", err, re.M)
    if m:
        return "UBSan %s %s" % (re.sub(r"^.*/src/", "src/", m.group(1)), m.group(2)[:80])
    m = re.search(r"ERROR: AddressSanitizer: (\S+)", err)
    if m:
        kind = m.group(1)
        fr = re.findall(r"^\s+#\d+ 0x[0-9a-f]+ in (\S+) (\S+)", err, re.M)
        loc = ""
        for fn, where in fr:
            if "/src/" in where and "libsanitizer" not in where:
                loc = "%s %s" % (fn, re.sub(r"^.*/src/", "src/", where))
                break
        return "ASan %s in %s" % (kind, loc)
    m = re.search(r"panic: ([^\n]*)", err)
    if m:
        return "panic " + re.sub(r"^.*/src/", "src/", m.group(1))[:120]
    return (err.strip().splitlines() or ["?"])[0][:120]


def api_signature(binpath, r):
    """cluster key of a non-OK run: what went wrong, where, and which allocation was failed"""
    inj = symbolize(binpath, r["err"])
    lib = [f for f in inj if not f.startswith(("nni_alloc@", "nni_zalloc@", "nng_alloc@")) and "harness/" not in f]
    injfn = lib[0].split("@")[0] if lib else "?"
    inj2 = ">".join(f.split("@")[0] for f in lib[:3])
    v = r["verdict"]
    if v in ("CRASH", "ABORT"):
        what = crash_site(r["err"] + "\n" + r["out"])
    elif v == "HANG":
        what = "hang (watchdog)"
    elif v == "LEAK":
        sizes = sorted(int(x) for x in re.findall(r"LIVE block of (\d+) bytes", r["err"]))
        what = "leak of %s" % r["live"]
    elif v.startswith(("BADRV", "NORECOVER")):
        what = "%s at step %s" % (v, r["step"][:60])
    else:
        what = v
    return {"verdict": v, "what": what, "inject_fn": injfn, "inject_path": inj2, "inject_stack": inj[:10]}


def api_sweep(binpath, programs, rep, log=None):
    """every k of every program, NPROC processes.  Returns (runs, findings) where findings
    is a dict signature-text -> list of runs."""
    runs = []
    base = {}
    with concurrent.futures.ThreadPoolExecutor(max_workers=NPROC) as ex:
        # baseline: count the allocations (3 times: background threads make the count vary)
        futs = {ex.submit(api_run, binpath, p, 0): p for p in programs for _ in range(2)}
        for f in concurrent.futures.as_completed(futs):
            r = f.result()
            base.setdefault(r["prog"], []).append(r)
        jobs = []
        for p in programs:
            counts = [r["count"] for r in base[p] if r["count"] is not None]
            n = max(counts) if counts else 0
            for k in range(1, n + 3):
                jobs.append((p, k))
        futs = [ex.submit(api_run, binpath, p, k) for p, k in jobs]
        for f in concurrent.futures.as_completed(futs):
            runs.append(f.result())
    return base, runs


KNOWN_KEYS = [
    # (key, predicate on signature dict) -- genuine defects of the pinned tree found by this check;
    # each is reported through Report.violation(key=...) so that a `known:` line turns it into KNOWN-FINDING
]


# ------------------------------------------------------------------ findings: signature -> key
def slug(s, n=44):
    return re.sub(r"[^a-z0-9]+", "-", s.lower()).strip("-")[:n]


def api_key(sig):
    """short, stable key of a defect cluster (root causes known to this check first)"""
    w, inj = sig["what"], sig["inject_path"]
    if "taskq.c" in w and "nni_taskq" in w and "null" in w:
        return "init-failure-fini-null-taskq"
    if "aio.c" in w and "nni_aio_expire_q" in w:
        return "aio-sys-init-unchecked"
    if "null pointer" in w and re.search(r"struct \w+0_sock", w) and "nni_sock_create" in inj:
        return "sock-create-fini-before-init"
    if "inproc.c" in w and "inproc_pair" in w:
        return "inproc-pipe-close-null-pair"
    if re.search(r"null pointer of type 'struct (tcptran_ep|ipc_ep|tlstran_ep|sfd_tran_ep)'", w):
        return "pipe-create-failure-null-ep"
    if sig["verdict"].startswith("NORECOVER") and "ws_start_read" in inj:
        return "ws-recv-after-close-hangs"
    if "heap-use-after-free" in w and "ws_start_read" in inj:
        return "ws-start-read-enomem-uaf"      # rare race, not root-caused
    if "http_server.c" in w and "nni_http_server" in w:
        return "http-sconn-init-null-server"
    if "url.c" in w and "SEGV" in w:
        return "url-strdup-unchecked"
    if "eq->eq_stop" in w and "nni_aio_expire_q_alloc" in inj:
        return "aio-sys-init-expire-q-unstopped"
    if "nni_msgq_init" in inj and re.search(r"(xrep0|xresp0|xsurv0|pair1poly)_pipe_init", inj):
        return "raw-pipe-init-failure-double-teardown"
    if "http_server_set_err" in inj and ("pthread_mutex" in w or sig["verdict"] == "HANG"):
        return "http-set-err-wrong-unlock"
    if "heap-use-after-free" in w and "nni_http_get_uri" in w:
        return "http-set-uri-dangling"
    if sig["verdict"] == "BADRV:-1001":
        return "message-delivered-with-wrong-content"
    if "nni_list_append" in w and "nni_id_alloc" in inj:
        return "endpoint-id-alloc-dangling"
    if "idhash.c" in w and "id < (1ULL << 32)" in w:
        return "id-alloc32-uninit-assert"
    if ("deadlock" in w.lower() or sig["verdict"] == "HANG") and "ws_read_finish_msg" in inj:
        return "ws-finish-msg-relock"
    if sig["verdict"] == "LEAK" and (":ws" in sig.get("prog", "") or "ws_" in inj or "wstran" in inj):
        return "ws-send-error-leaks-msg"
    return "c20-" + slug(re.sub(r"0x[0-9a-f]+|\d+/\d+", "", w)) + "-" + slug(sig["inject_fn"], 20)


# ------------------------------------------------------------------ WB: generators
SIZES = [0, 1, 7, 8, 9, 31, 32, 33, 63, 64, 65, 100, 127, 128, 255, 256, 1000, 1023, 1024, 1025, 2048, 4096]
SMALL = [0, 1, 2, 3, 4, 7, 8, 9, 16, 24, 30, 31, 32, 33, 40]


def rhex(rng, n):
    return "".join("%02x" % rng.randrange(256) for _ in range(n)) if n else "-"


def gen_msg(rng):
    """message histories that cross the growth boundaries (headroom 32, needed+8 = cap, big aligned sizes)"""
    lines = []
    ns = rng.choice([1, 1, 2])
    for s in range(ns):
        lines.append("alloc %d %d" % (s, rng.choice(SIZES if rng.random() < 0.6 else SMALL)))
    for _ in range(rng.randrange(2, 14)):
        s = rng.randrange(ns)
        r = rng.random()
        if r < 0.22:
            lines.append("insert %d %s" % (s, rhex(rng, rng.choice(SMALL + [41, 48, 64, 100]))))
        elif r < 0.40:
            lines.append("append %d %s" % (s, rhex(rng, rng.choice(SMALL + [48, 64, 100, 300]))))
        elif r < 0.48:
            lines.append("trim %d %d" % (s, rng.choice(SMALL)))
        elif r < 0.54:
            lines.append("chop %d %d" % (s, rng.choice(SMALL)))
        elif r < 0.60:
            lines.append("happend %d %s" % (s, rhex(rng, rng.choice([4, 8, 16, 28, 32]))))
        elif r < 0.68:
            lines.append("realloc %d %d" % (s, rng.choice(SIZES)))
        elif r < 0.74:
            lines.append("reserve %d %d" % (s, rng.choice(SIZES)))
        elif r < 0.80:
            k = rng.choice([2, 4, 8])
            lines.append("%s %d %d %x" % (rng.choice(["appendu", "insertu"]), s, k, rng.getrandbits(8 * k)))
        elif r < 0.86 and ns > 1:
            lines.append("dup %d %d" % (s, 1 - s))
        elif r < 0.91:
            lines.append("unique %d %d" % (s, rng.choice([0, 1])))
        elif r < 0.97:
            lines.append("pullup %d %d" % (s, rng.choice([0, 0, 1])))
        else:
            lines.append("clear %d" % s)
    lines.append("end")
    return lines


def gen_pullup_boundary(rng):
    """the in-place branch of nni_msg_pull_up at its growth boundary: room for the header but less than 8 spare"""
    hl = rng.choice([8, 16, 28, 32, 36, 40])
    ins = rng.choice([20, 26, 28, 30, 31])
    return ["alloc 0 0", "insert 0 %s" % rhex(rng, ins), "happend 0 %s" % rhex(rng, hl), "pullup 0 0", "end"]


def gen_lmq(rng):
    lines = ["linit %d" % rng.choice([0, 1, 2, 3, 4, 8, 9, 16, 100])]
    nid = 1
    for _ in range(rng.randrange(2, 16)):
        r = rng.random()
        if r < 0.45:
            lines.append("lput %d" % nid)
            nid += 1
        elif r < 0.65:
            lines.append("lget")
        elif r < 0.70:
            lines.append("lflush")
        else:
            lines.append("lresize %d" % rng.choice([0, 1, 2, 3, 4, 5, 8, 9, 16, 17, 64]))
    lines.append(rng.choice(["lfini", "end"]))
    if lines[-1] != "end":
        lines.append("end")
    return lines


def gen_msgq(rng):
    lines = ["qinit %d" % rng.choice([0, 1, 2, 4, 8, 16])]
    nid = 1
    for _ in range(rng.randrange(2, 12)):
        r = rng.random()
        if r < 0.55:
            lines.append("qtryput %d" % nid)
            nid += 1
        else:
            lines.append("qresize %d" % rng.choice([0, 1, 2, 3, 4, 8, 16, 32]))
    lines.append(rng.choice(["qfini", "end"]))
    if lines[-1] != "end":
        lines.append("end")
    return lines


def gen_idmap(rng):
    lo = rng.choice([1, 1, 0x10, 0x7ffffff0])
    lines = ["iinit %x %x" % (lo, lo + rng.choice([3, 40, 200, 0xffff]))]
    keys = []
    for _ in range(rng.randrange(3, 40)):
        r = rng.random()
        if r < 0.40:
            lines.append("ialloc %x" % rng.randrange(1, 1 << 20))
        elif r < 0.60:
            k = rng.choice([rng.randrange(1, 64), rng.randrange(1, 64) * 8, rng.getrandbits(20)])
            keys.append(k)
            lines.append("iset %x %x" % (k, rng.randrange(1, 1 << 20)))
        elif r < 0.85:
            k = rng.choice(keys) if keys and rng.random() < 0.7 else lo + rng.randrange(0, 30)
            lines.append("iremove %x" % k)
        elif r < 0.93:
            lines.append("iget %x" % (rng.choice(keys) if keys else 5))
        else:
            lines.append("ivisit")
    lines.append("icount")
    lines.append("ivisit")
    lines.append(rng.choice(["ifini", "end"]))
    if lines[-1] != "end":
        lines.append("end")
    return lines


def gen_idmap_burst(rng):
    """grow over several resizes, then shrink over several (the refused shrink is ignored)"""
    n = rng.choice([6, 12, 24, 50, 100])
    lines = ["iinit 1 ffff"] + ["ialloc %x" % (i + 1) for i in range(n)]
    order = list(range(1, n + 1))
    rng.shuffle(order)
    lines += ["iremove %x" % k for k in order[: rng.randrange(n // 2, n + 1)]]
    lines += ["ivisit", "end"]
    return lines


URLS = ["tcp://127.0.0.1:4000", "tcp://[::1]:80/a/../b?x=1#f", "ws://user@host.example:8080/some/path", "ipc:///tmp/x.ipc",
        "inproc://name", "http://www.example.com/", "bogus://x", "tcp://host:99999", "tcp:/nope", "ws://h/%zz",
        "tcp://127.0.0.1:1/" + "p" * 110, "tcp://127.0.0.1:1/" + "p" * 111, "tcp://127.0.0.1:1/" + "p" * 112,
        "http://h:80/" + "q" * 200 + "?a=b", "ipc:///" + "d/" * 80, "ws://h:1/" + "%41" * 60, "http://h:80/" + "a/../" * 40,
        # long AND rejected after the heap copy was made: the error path must free it
        "http://h:80/" + "a" * 150 + "%zz", "tcp://host:99999/" + "x" * 130, "ws://h:1/" + "b" * 140 + "%c0%af", "tcp://[::1/" + "y" * 140]


def gen_url(rng):
    u = rng.choice(URLS)
    if rng.random() < 0.3:
        u = "tcp://10.0.0.%d:%d/%s" % (rng.randrange(256), rng.randrange(1, 65536), "x" * rng.choice([0, 5, 100, 109, 110, 111, 112, 113, 300]))
    lines = ["uparse %s" % u.encode().hex()]
    r = rng.random()
    if r < 0.6:
        lines += ["uclone", rng.choice(["ufree", "ufree2"])]
    lines.append("end")
    return lines


def gen_sub(rng):
    topics = ["-", "61", "6162", "616263", "00ff", "78" * 40]
    lines = ["sopen"]
    for _ in range(rng.randrange(2, 12)):
        t = rng.choice(topics)
        r = rng.random()
        lines.append(("ssub %s" if r < 0.55 else "sunsub %s" if r < 0.85 else "sprobe %s") % t)
    for t in topics:
        lines.append("sprobe %s" % t)
    lines += ["sclose", "end"]
    return lines


GENS = [("msg", gen_msg, 10), ("pullup", gen_pullup_boundary, 2), ("lmq", gen_lmq, 4), ("msgq", gen_msgq, 3),
        ("idmap", gen_idmap, 4), ("idmap-burst", gen_idmap_burst, 1), ("url", gen_url, 4), ("sub", gen_sub, 2)]


def count_alloc_calls(out_lines):
    n = 0
    for l in out_lines:
        if " | " in l:
            n += len(re.findall(r"(?:^| )[AX]\d+", l.split(" | ", 1)[1]))
    return n


# ------------------------------------------------------------------ WB: the abstract statement on the C output
STATE_PART = re.compile(r"(hdr=\S+ body=\S+ cap=\d+|none)$|( len=\d+ cap=\d+ full=\d+ empty=\d+)$|( cap=\d+ len=\d+ alloc=\d+)$|( cap=\d+ count=\d+)$")
OBJ_OF = {"l": "lmq", "q": "msgq", "i": "idmap", "u": "url", "s": "sub"}


def wb_spec_check(case, out):
    """what the theorems say, evaluated on the implementation's own output: a refused
    allocation gives NNG_ENOMEM (or the documented fallback) with the object's observable
    state unchanged, every free matches an allocation, nothing is live at the end.
    Returns None or (op index, text)."""
    live = {}
    last_state = {}
    topics = set()
    ops = [l for l in case if not l.startswith(("oracle", "#"))]
    if len(out) < len(ops):
        return (len(out), "output ends early (crash / hang?)")
    for k, (line, o) in enumerate(zip(ops, out)):
        t = line.split()
        op = t[0]
        if " | " not in o:
            if o in ("noslot", "noqueue", "nomap", "nourl", "nosock"):
                continue
            return (k, "odd output %r" % o)
        obs, evs = o.split(" | ", 1)
        refused = False
        for e in ([] if evs == "-" else evs.split(" ")):
            kind, sz = e[0], int(e[1:])
            if kind == "A":
                live[sz] = live.get(sz, 0) + 1
            elif kind == "X":
                refused = True
            elif kind == "F":
                if live.get(sz, 0) <= 0:
                    return (k, "free of %d bytes that no allocation of this case matches" % sz)
                live[sz] -= 1
            elif kind == "!":
                return (k, "block freed with a size other than its allocated size (%d)" % sz)
        # object identity for the state comparison
        if op in ("alloc", "dup", "free", "unique", "pullup") or op[0] not in OBJ_OF or op in ("insert", "insertu", "reserve", "realloc", "append", "appendu"):
            obj = "msg%s" % (t[2] if op == "dup" else t[1] if len(t) > 1 else "")
        else:
            obj = OBJ_OF[op[0]]
        m = STATE_PART.search(obs)
        state = m.group(0) if m else None
        rvm = re.match(r"rv=(\d+)", obs)
        rv = int(rvm.group(1)) if rvm else None
        # SUB: the set of subscriptions as the API shows it (a refused subscribe changes nothing)
        if op == "sopen":
            topics = set()
        elif op == "ssub" and rv == 0:
            topics.add(t[1])
        elif op == "sunsub":
            if (rv == 0) != (t[1] in topics):
                return (k, "unsubscribe of %s returned %s but the topic was %ssubscribed" % (t[1], rv, "" if t[1] in topics else "not "))
            topics.discard(t[1])
        elif op == "sprobe":
            has = obs.strip() == "has=1"
            if has != (t[1] in topics):
                return (k, "topic %s is %ssubscribed although the successful calls so far say otherwise "
                           "(a failed subscribe must leave the subscriptions unchanged)" % (t[1], "" if has else "not "))
        if op == "pullup" and rv == 0 and obj in last_state:
            # header ++ body must survive (with or without a refused allocation)
            old = re.match(r"hdr=(\S+) body=(\S+)", last_state[obj])
            new = re.match(r".*hdr=(\S+) body=(\S+)", obs)
            if old and new:
                exp = ("" if old.group(1) == "-" else old.group(1)) + ("" if old.group(2) == "-" else old.group(2))
                got = "" if new.group(2) == "-" else new.group(2)
                if new.group(1) != "-" or got != exp:
                    return (k, "nni_msg_pull_up returned a message that is not header++body (header lost)")
        if refused:
            if op == "linit":
                if not (rv == 0 and " cap=2 " in obs + " "):
                    return (k, "nni_lmq_init with a refused ring must fall back to capacity 2: %s" % obs)
            elif op == "iremove":
                if rv != 0:
                    return (k, "nni_id_remove must ignore a refused shrink: %s" % obs)
            elif rv != 2:
                return (k, "allocation refused but rv=%s: %s" % (rv, obs))
            elif op not in ("alloc", "dup", "qinit", "uparse", "uclone", "unique", "pullup") and state is not None \
                    and obj in last_state and last_state[obj] != state:
                return (k, "NNG_ENOMEM but the object changed: %s -> %s" % (last_state[obj], state))
        if state is not None:
            last_state[obj] = state
        if op == "end":
            mm = re.match(r"end live=(\d+)/(\d+)", obs)
            if not mm or mm.group(1) != "0":
                return (k, "blocks still live after everything was freed: %s" % obs)
            # (the tally kept here cannot be compared at the end: the original of a shared
            #  message leaves the ledger with its other owner; the driver's own count of
            #  recorded blocks still live, printed above, is the leak check)
    return None


def run_cases_resilient(binpath, cases, timeout=600):
    """run_cases, restarting after the case that killed the driver; returns (outputs, {case index: (rc, stderr tail)})"""
    outs = [[] for _ in cases]
    crashes = {}
    start = 0
    while start < len(cases):
        per, crash = run_cases(binpath, cases[start:], timeout=timeout)
        for i, o in enumerate(per):
            outs[start + i] = o
        if crash is None:
            break
        ci = start + crash[0]
        crashes[ci] = (crash[1], crash[2])
        for j in range(ci + 1, len(cases)):
            outs[j] = []
        start = ci + 1
    return outs, crashes


def with_oracle(case, bits):
    return ["oracle %s" % bits] + case


def source_flags():
    """the forms of the source, read from the tree under test by the same drop-in that writes Gen/Consts.v"""
    out = {}
    miss = []

    def src(pth):
        return open(os.path.join(REPO, pth)).read()

    def define_int(pth, name):
        m = re.search(r"#define\s+%s\s+\(?\s*(0x[0-9a-fA-F]+|\d+)" % re.escape(name), src(pth))
        return int(m.group(1), 0) if m else 0

    def find_int(pth, regex, what):
        m = re.search(regex, src(pth), re.S)
        return int(m.group(1), 0) if m else 0
    g = {"REPO": REPO, "src": src, "missing": miss, "extra_text": [], "re": re, "os": os, "items": [],
         "N": lambda *a: None, "Nat": lambda *a: None, "define_int": define_int, "find_int": find_int}
    p = os.path.join(VERIF, "tools", "gen_consts_d", "c20_flags.py")
    exec(compile(open(p).read(), p, "exec"), g)
    for l in g["extra_text"]:
        m = re.match(r"Definition (\w+) : bool := (\w+)", l)
        if m:
            out[m.group(1)] = (m.group(2) == "true")
    return out


def run_wb(rep, tier, rng, bdir, replay_case=None):
    """model and implementation on the same scripts with the same oracle; every k"""
    cbin, e = wb_build(bdir, "wb_allocfail.c")
    if cbin is None:
        raise RuntimeError("wb_allocfail build failed: " + e)
    mbin = model_bin("modeld_c20")
    rc, so, se = run_prog(cbin, "sizes\n", timeout=60)
    sizes = next((l for l in so if l.startswith("sizes ")), None)
    if sizes is None or re.search(r"=0\b", sizes):
        raise RuntimeError("could not read struct sizes from the library: %r %s" % (so, se[-300:]))
    rep.cov["struct_sizes"] = sizes

    sf = source_flags()
    margs = ["--flags", "%d%d" % (sf.get("URL_STRDUP_CHECKED", False), sf.get("PULL_UP_INSERT_CHECKED", False))]
    rep.cov["source_form_flags_model"] = sf

    def both(cases):
        ci, crash = run_cases_resilient(cbin, cases, timeout=600)
        mi, mcrash = run_cases(mbin, [[sizes] + c for c in cases], timeout=600, args=margs)
        return ci, crash, mi, mcrash

    if replay_case is not None:
        cases = [replay_case]
    else:
        nbase = {"quick": 60, "thorough": 8000}[tier]
        weights = [w for _, _, w in GENS]
        cases = []
        kinds = []
        for _ in range(nbase):
            name, g, _ = rng.choices(GENS, weights=weights)[0]
            cases.append(g(rng))
            kinds.append(name)
        cases = load_corpus(PROP) + cases
        kinds = ["corpus"] * (len(cases) - len(kinds)) + kinds
    # baseline: no refusal; count the allocator calls of each case
    ci, crash, mi, mcrash = both(cases)
    if mcrash:
        raise RuntimeError("model driver failed: %r" % (mcrash,))
    variants, origin = [], []
    for idx, c in enumerate(cases):
        n = count_alloc_calls(ci[idx])
        variants.append(c)
        origin.append((idx, "-"))
        for k in range(1, n + 1):
            variants.append(with_oracle(c, "1" * (k - 1) + "0"))
            origin.append((idx, "k=%d" % k))
        # several failures in one history: every oracle, not only single failures
        for _ in range(min(n, 3)):
            bits = "".join(rng.choice("0111") for _ in range(n + 2))
            variants.append(with_oracle(c, bits))
            origin.append((idx, "bits=" + bits))
    vi, vcrash, vm, vmcrash = both(variants)
    if vmcrash:
        raise RuntimeError("model driver failed: %r" % (vmcrash,))
    nops = 0
    classes = set()
    refused_ops = 0
    div = []
    for vx, v in enumerate(variants):
        co, mo = vi[vx], vm[vx]
        nops += len(co)
        for line, o in zip([l for l in v if not l.startswith("oracle")], co):
            ev = o.split(" | ", 1)[1] if " | " in o else ""
            shape = re.sub(r"\d+", "", ev)
            classes.add((line.split()[0], shape, re.match(r"rv=\d+", o).group(0) if o.startswith("rv=") else o[:4]))
            if "X" in ev:
                refused_ops += 1
        sc = wb_spec_check(v, co)
        if co != mo or sc is not None or vx in vcrash:
            div.append((vx, sc))
    rep.cov["wb_cases"] = len(cases)
    rep.cov["wb_variants"] = len(variants)
    rep.cov["wb_ops_compared"] = nops
    rep.cov["wb_ops_with_refusal"] = refused_ops
    rep.cov["wb_distinct_classes"] = len(classes)
    seen_keys = set()
    for vx, sc in div[:40]:
        v = variants[vx]
        co, mo = vi[vx], vm[vx]
        first = next((i for i, (a, b) in enumerate(zip(co, mo)) if a != b), min(len(co), len(mo)))
        txt = "case %s %s\n" % origin[vx] + "\n".join(v) + "\n--- implementation\n" + "\n".join(co) + "\n--- model\n" + "\n".join(mo)
        if vx in vcrash:
            txt += "\n--- implementation crashed rc=%s\n%s" % (vcrash[vx][0], vcrash[vx][1][-1500:])
        path = rep.replay_file("wb_%d.case" % vx, "\n".join(v) + "\n")
        rep.replay_file("wb_%d.txt" % vx, txt)
        if sc is not None:
            # the implementation contradicts the statement of the theorems on this input
            key = None
            if "header lost" in sc[1]:
                key = "pull-up-drops-header"
            if vx in vcrash and len(co) < len(mo) and mo[len(co)].startswith("CRASH") and "uparse" in " ".join(v):
                key = "url-strdup-unchecked"      # the faithful model predicts the NULL dereference
                sc = (sc[0], "nng_url_parse dereferences the NULL result of an unchecked nni_strdup: " + san_summary(vcrash[vx][1]))
            if key in seen_keys:
                continue
            seen_keys.add(key)
            rep.violation(path, "WB: %s (op %d of %s %s)" % (sc[1], sc[0], kinds[origin[vx][0]] if replay_case is None else "replay", origin[vx][1]), key=key)
        else:
            what = "implementation crashed" if vx in vcrash else \
                "model and implementation differ at op %d: impl %r / model %r" % (first, co[first] if first < len(co) else None, mo[first] if first < len(mo) else None)
            rep.violation(path, "WB: %s; the statement of the theorems still holds on the implementation's output" % what, nofail=True)
    return len(variants), len(classes)


# ------------------------------------------------------------------ the site table
def load_scanner():
    g = {}
    p = os.path.join(VERIF, "tools", "gen_consts_d", "c20_sites.py")
    exec(compile(open(p).read(), p, "exec"), g)
    return g


SITE_KEYS = {("nni_aio_sys_init", "nni_zalloc"): "aio-sys-init-unchecked",
             ("nni_url_parse_inline_inner", "nni_strdup"): "url-strdup-unchecked",
             ("nni_msg_pull_up", "nni_msg_insert"): "pull-up-drops-header"}


def run_sites(rep):
    g = load_scanner()
    sites = g["scan_repo"](REPO)
    stale = g["stale_justifications"](sites)
    rep.cov["alloc_sites"] = len(sites)
    rep.cov["alloc_sites_checked_by_scan"] = sum(1 for s in sites if s["scan_checked"])
    rep.cov["alloc_sites_justified"] = [{"site": "%s:%d %s %s" % (s["file"], s["line"], s["fn"], s["callee"]), "why": s["justified"]}
                                        for s in sites if s["justified"] and not s["scan_checked"]]
    unchecked = [s for s in sites if not s["checked"]]
    rep.cov["alloc_sites_unchecked"] = ["%s:%d %s %s (%s)" % (s["file"], s["line"], s["fn"], s["callee"], s["detail"][:100]) for s in unchecked]
    for s in unchecked:
        key = SITE_KEYS.get((s["fn"], s["callee"]))
        txt = "site table: %s:%d %s: result of %s not tested before its first use (%s)" % (s["file"], s["line"], s["fn"], s["callee"], s["detail"][:120])
        p = rep.replay_file("site_%s_%d.txt" % (os.path.basename(s["file"]), s["line"]), txt + "\n")
        # a site the scan flags and no injection run has confirmed yet is reported without a key
        rep.violation(p, txt, nofail=(key is None), key=key)
    for k in stale:
        p = rep.replay_file("site_stale_justification.txt", repr(k) + "\n")
        rep.violation(p, "site table: the justification for %r no longer matches a flagged site (scanner or source changed)" % (k,), nofail=True)
    return sites


# ------------------------------------------------------------------ API sweep: reporting
ALL_PROGRAMS = None   # filled from the driver's --list


def run_api(rep, tier, rng, bdir):
    binpath, e = wb_build(bdir, "wb_c20api.c")
    if binpath is None:
        raise RuntimeError("wb_c20api build failed: " + e)
    rc, o, e = sh([binpath, "--list"], timeout=30)
    allp = o.split()
    if tier == "quick":
        progs = [p for p in QUICK_PROGRAMS if p in allp]
    else:
        progs = allp
    t0 = time.time()
    base, runs = api_sweep(binpath, progs, rep)
    # background threads allocate too, so the k-th allocation is not the same one in every
    # run: the thorough tier repeats the whole sweep
    for _ in range({"quick": 0, "thorough": 5}[tier]):
        b2, r2 = api_sweep(binpath, progs, rep)
        runs += r2
        for p in progs:
            base[p] += b2[p]
    rep.cov["api_programs"] = progs
    rep.cov["api_runs"] = len(runs)
    rep.cov["api_wall_s"] = round(time.time() - t0, 1)
    rep.cov["api_alloc_counts"] = {p: sorted(set(r["count"] for r in base[p] if r["count"] is not None)) for p in progs}
    # the programs must work without any fault, otherwise nothing is learnt
    for p in progs:
        bad = [r for r in base[p] if r["verdict"] != "OK"]
        if len(bad) == len(base[p]):
            r = bad[0]
            path = rep.replay_file("api_baseline_%s.txt" % slug(p), r["out"] + "\n" + r["err"][-3000:])
            rep.violation(path, "API program %s does not run cleanly WITHOUT any injected failure (%s %s)" % (p, r["verdict"], r["step"]), nofail=True)
    # sized free: a block freed with another size than it was allocated with (independent of any fault)
    bs = [r for p in progs for r in base[p] if r["badsize"]]
    if bs:
        r = bs[0]
        sizes = sorted(set(re.findall(r"BADSIZE allocated (\d+) freed as (\d+)", "\n".join(x["err"] for x in bs))))
        path = rep.replay_file("api_badsize.txt", r["err"][:3000])
        rep.violation(path, "allocator contract: blocks freed with a size other than their allocated size, without any fault "
                      "(allocated, freed) = %s -- nni_sock s_size is never set" % sizes[:6], key="sock-free-size-zero")
    # two nng_init/nng_fini cycles in one process, no fault: everything must be returned each time
    try:
        env = dict(os.environ, **ASAN_ENV)
        env["ASAN_OPTIONS"] += ":detect_leaks=0"
        pc = subprocess.run([binpath, "pair0:inproc", "cycles", "3"], capture_output=True, text=True, timeout=API_TIMEOUT, env=env, cwd=SCRATCH)
        lives = re.findall(r"^K 0 hit=0 count=\d+ live=(\d+)/(\d+)", pc.stdout, re.M)
        rep.cov["api_cycles_live"] = lives
        if len(lives) == 3 and any(l[0] != "0" for l in lives):
            path = rep.replay_file("api_cycles.txt", pc.stdout + "\n" + pc.stderr[-3000:])
            rep.violation(path, "nng_init/nng_fini repeated in one process (no fault): blocks still live after nng_fini, per cycle %s "
                          "-- static id maps are not registered again after nni_id_map_sys_fini" % lives, key="idmap-static-not-reregistered")
    except subprocess.TimeoutExpired:
        pass
    clusters = {}
    hit = 0
    past = 0
    for r in runs:
        if r["hit"] == 0 and r["verdict"] == "OK":
            past += 1
            continue
        if r["hit"]:
            hit += 1
        if r["verdict"] == "OK":
            continue
        if r["hit"] == 0:
            # not OK although nothing was injected: environment (port in use), not a finding
            rep.cov.setdefault("api_env_anomalies", []).append("%s k=%d %s %s" % (r["prog"], r["k"], r["verdict"], r["step"][:50]))
            continue
        sig = api_signature(binpath, r)
        sig["prog"] = r["prog"]
        key = api_key(sig)
        clusters.setdefault(key, []).append((r, sig))
    rep.cov["api_faults_injected"] = hit
    rep.cov["api_k_past_the_end"] = past
    rep.cov["api_clusters"] = {k: {"runs": len(v), "what": v[0][1]["what"], "inject": v[0][1]["inject_path"],
                                   "examples": ["%s k=%d" % (x[0]["prog"], x[0]["k"]) for x in v[:5]]} for k, v in clusters.items()}
    for key, v in sorted(clusters.items()):
        r, sig = v[0]
        txt = ("API fault enumeration: %s\n  failed allocation: %s\n  %d run(s), e.g. %s\n  reproduce: %s %s %d %d"
               % (sig["what"], sig["inject_path"], len(v), ", ".join("%s k=%d" % (x[0]["prog"], x[0]["k"]) for x in v[:4]),
                  binpath, r["prog"], r["k"], r["k"]))
        path = rep.replay_file("api_%s.txt" % slug(key), txt + "\n\n" + r["out"][-2000:] + "\n" + r["err"][-6000:] +
                               "\ninjected-failure stack:\n  " + "\n  ".join(sig["inject_stack"]))
        rep.violation(path, txt, key=key)
    return len(runs), len(clusters)


# ------------------------------------------------------------------ entry point
def run(tier, seed, replay=None):
    rep = Report(PROP, tier, seed, level="proof")
    rep.cov["level_detail"] = "proof for the modelled allocation sites only + site table (shape) + fault enumeration over API programs (not proof)"
    if os.environ.get("C20_EXTRA_KNOWN"):     # self-test only: treat the proposed known: lines as accepted
        for l in open(os.environ["C20_EXTRA_KNOWN"]):
            m = re.match(r"known:\s+property=C20\s+key=(\S+)\s+(.*)", l.strip())
            if m:
                rep.known[m.group(1)] = m.group(2)
    rng = random.Random(seed)
    rep.assumptions = [
        "theorems are about the Gallina wrappers of coq/AllocFail; the tie to the C is the white-box comparison "
        "(same script, same oracle, ledgers with sizes compared) -- differential testing, not proof",
        "proof covers ONLY: message.c (msg alloc/dup/grow/unique/pull_up), idhash.c id_resize, lmq.c resize/init, "
        "msgqueue.c init/resize, url.c parse/clone allocations, sub.c subscribe, the lock held by ws_read_finish_msg",
        "struct sizes are parameters of the theorems; the harness reads them from the library's own allocations",
        "the site table is a syntactic scan (regenerated every run) with a hand-read justification table",
        "the k-sweep over API programs is fault enumeration: one failure at a time, allocation order of background "
        "threads varies between runs; a k that was not reached in one run may be reached in another",
    ]
    def read_flags():
        ctxt = open(os.path.join(COQ, "Gen", "Consts.v")).read()
        fl = {}
        for n in ("URL_STRDUP_CHECKED", "WS_FINISH_RELOCK_FIXED", "PULL_UP_INSERT_CHECKED", "ALLOC_SITES_COUNT"):
            m = re.search(r"Definition %s : \w+ := (\w+)" % n, ctxt)
            fl[n] = m.group(1) if m else "?"
        fl["_sites_digest"] = hashlib.sha1("".join(re.findall(r"mkAllocSite[^\n]*", ctxt)).encode()).hexdigest()[:12]
        return fl

    # Gen/Consts.v is shared with the other checks: a concurrent run for ANOTHER tree
    # (NNGV_REPO) may rewrite it between our generation and our builds; detect and redo
    for attempt in range(4):
        ok, msg = gen_consts("c20")
        if not ok:
            p = rep.replay_file("gen_consts.txt", msg)
            rep.violation(p, "gen_consts: pattern(s) no longer found: " + msg, nofail=True)
            return rep.finish()
        flags = read_flags()
        cb = coq_build("Properties_C20")
        model_build("c20")
        if read_flags() == flags:
            break
    rep.proof_cov(cb, "make Props/Properties_C20.vo; coqc -Q . NngV Props/Properties_C20.v")
    gate = coq_gate()
    if not cb["ok"] or gate:
        cb.setdefault("failed_at", []).extend(gate)
        proof_broken_report(rep, cb, "Properties_C20 does not check (or the gate found a forbidden word)")
    flags.pop("_sites_digest", None)
    rep.cov["source_form_flags"] = flags
    rep.cov["rule"] = ("WB: distinct (op, ledger shape, rv) classes over all variants (every k of every case + multi-failure "
                       "oracles); API: one process per (program, k), every k up to the allocation count of the program")
    sites = run_sites(rep)
    bdir, e = nng_build("asan")
    if bdir is None:
        p = rep.replay_file("nng_build.txt", e[-4000:])
        rep.violation(p, "the library does not build", nofail=True)
        return rep.finish()
    replay_case = None
    if replay:
        replay_case = [l.strip() for l in open(replay) if l.strip() and not l.startswith("#")]
    nv, ncl = run_wb(rep, tier, rng, bdir, replay_case)
    nr, ncl2 = (0, 0)
    if not replay:
        nr, ncl2 = run_api(rep, tier, rng, bdir)
    rep.cov["evaluations"] = rep.cov.get("wb_ops_compared", 0) + nr
    rep.cov["distinct_nontrivial"] = ncl + len(rep.cov.get("api_alloc_counts", {}))
    rep.cov["samples"] = ["wb variants %d" % nv, "api runs %d" % nr]
    return rep.finish()


if __name__ == "__main__":
    t = sys.argv[1] if len(sys.argv) > 1 else "quick"
    sys.exit(run(t, int(os.environ.get("VERIF_SEED", "1"))))
