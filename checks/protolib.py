# protolib.py -- shared code of the protocol-level checks (white-box transport harness)
import re
from vlib import *

LINE = re.compile(r"^(?:got=(\S+) )?rv=(-?\d+)(?: pipe=p(\d+))?(?: inj=(\S+))?(?: NOT-QUIESCENT)? done=(\S+) pipes=(\S+) poll=(\S+)$")


def parse_line(l):
    """-> dict(rv, got, newpipe, inj, done=[(aio, rv, extra)], pipes={i: dict(st, nt, tx, armed, inbox)}, poll={s: (r,w)}) or None
    inj: canonical spelling of an injected message that was written with a relative id token ([R<n>+k] / [R<n>-k]): the
    token is spelt [R<m>] if its value is an id already seen on the wire, else it keeps the relative spelling."""
    m = LINE.match(l or "")
    if not m:
        return None
    got, rv, newpipe, inj, done, pipes, poll = m.groups()
    d = {"rv": int(rv), "got": got, "newpipe": int(newpipe) if newpipe is not None else None, "inj": inj, "done": [], "pipes": {}, "poll": {}}
    if done != "-":
        for x in done.split(","):
            f = x.split(":", 2)
            d["done"].append((int(f[0][1:]), int(f[1]), f[2] if len(f) > 2 else None))
    if pipes != "-":
        for x in pipes.split(","):
            f = x.split(":")
            i = int(f[0][1:])
            if f[1] == "g":
                d["pipes"][i] = {"st": "g"}
            else:
                mm = re.match(r"r(\d+)i(\d+)", f[4])
                d["pipes"][i] = {"st": f[1], "nt": int(f[2][1:]), "tx": None if f[3] == "-" else f[3],
                                 "armed": int(mm.group(1)), "inbox": int(mm.group(2))}
    if poll != "-":
        for x in poll.split(","):
            s, v = x.split(":")
            d["poll"][int(s[1:])] = (v[0], v[1])
    return d


def proto_run(rep, prop, tier, bdir, cases, oracle, model_driver="proto", label="proto"):
    """run cases on the implementation (wb_proto) and on the models (modeld_proto); apply the
    property's spec oracle to the implementation's observations; report divergences."""
    impl, err = wb_build(bdir, "wb_proto.c")
    if impl is None:
        p = rep.replay_file("wb_proto_build.txt", err)
        rep.violation(p, "protocol driver does not build against the current tree (correspondence broken)", nofail=True)
        return
    model = model_bin("modeld_" + model_driver)
    diverged = []
    hist = rep.cov.setdefault("op_histogram", {})
    distinct = set()

    def spec_fails(c):
        o, crash = run_cases(impl, [c], timeout=120)
        return crash is not None or oracle(c, [parse_line(x) for x in o[0]], o[0]) is not None

    B = 100
    # (offset of the batch in `cases`, its cases).  A crash ends the process that runs a batch: the cases before the
    # crashing one have their observations and are judged as usual, the cases after it are run again as a new batch
    # (so that one crashing script does not hide what the oracle says about its neighbours).
    work = [(b0, cases[b0:b0 + B]) for b0 in range(0, len(cases), B)]
    ncrash = 0
    while work:
        b0, batch = work.pop(0)
        iout, crash = run_cases(impl, batch, timeout=600) if b0 != "crash" else (None, None)
        if crash:
            ci, rc, errtxt = crash
            ncrash += 1
            if ncrash <= 8 and ci + 1 < len(batch):
                work.insert(0, (b0 + ci + 1, batch[ci + 1:]))
            crashed = batch[ci]
            batch = batch[:ci]
            # reported after the cases that ran before it have been judged (work list: first thing next)
            work.insert(0, ("crash", (b0 + ci, crashed, rc, errtxt)))
        if b0 == "crash":
            k0, crashed, rc, errtxt = batch
            small = crashed
            try:
                small = ddmin(crashed, lambda c: run_cases(impl, [c], timeout=60)[1] is not None, max_iter=60)
            except Exception:
                pass
            p = rep.replay_file("crash_%d.case" % k0, "# implementation crashed or hung (rc=%s)\n# %s\n" % (rc, errtxt.replace("\n", "\n# ")) + "\n".join(small) + "\n")
            rep.violation(p, "implementation crashed / hung / sanitizer report (rc=%s): %s" % (rc, san_summary(errtxt)))
            continue
        if not batch:
            continue
        mout, mcrash = run_cases(model, batch, timeout=600)
        for ci, case in enumerate(batch):
            rep.cov["evaluations"] += len(case)
            for l in case:
                hist[l.split()[0]] = hist.get(l.split()[0], 0) + 1
            parsed = [parse_line(x) for x in iout[ci]]
            if any(p and (p["done"] or any(v.get("tx") for v in p["pipes"].values())) for p in parsed):
                distinct.add(hash(tuple(case)))
            bad = None
            if any("NOT-QUIESCENT" in x for x in iout[ci]):
                bad = (0, "library did not become quiescent within 10 s")
            if bad is None:
                bad = oracle(case, parsed, iout[ci])
            if bad and "NOT-QUIESCENT" not in bad[1] and not any(spec_fails(case) for _ in range(2)):
                # not reproduced in two more runs of the same script: an observation cut short by the quiescence
                # detection under machine load, not a property of the code; kept in the evidence, not reported
                rep.cov["unconfirmed_observations"] = rep.cov.get("unconfirmed_observations", 0) + 1
                rep.replay_file("unconfirmed_%d.case" % (b0 + ci), "# %s at op %d -- not reproduced on re-run\n" % (bad[1], bad[0]) + "\n".join(case) + "\n")
                bad = None
                iout[ci] = run_cases(impl, [case], timeout=120)[0][0]
            if bad:
                k, text = bad
                small = case
                try:
                    small = ddmin(case, spec_fails, max_iter=120)
                except Exception:
                    pass
                p = rep.replay_file("spec_%d.case" % (b0 + ci), "# %s at op %d (%s)\n" % (text, k, case[min(k, len(case) - 1)]) + "\n".join(small) + "\n"
                                    + ("# ---- the case as generated (before shrinking):\n" + "".join("# %s\n" % l for l in case) if small != case else ""))
                rep.violation(p, "%s: %s (op %d: %s)" % (label, text, k, case[min(k, len(case) - 1)][:100]))
                continue
            for k, line in enumerate(case):
                io = iout[ci][k] if k < len(iout[ci]) else None
                mo = mout[ci][k] if k < len(mout[ci]) else None
                if io != mo:
                    # confirm: a real divergence is deterministic (the scripts run at quiescence)
                    again = 0
                    for _ in range(2):
                        i2 = run_cases(impl, [case], timeout=120)[0][0]
                        m2 = run_cases(model, [case], timeout=120)[0][0]
                        if i2 != m2:
                            again += 1
                    if again:
                        diverged.append((b0 + ci, k, line, io, mo))
                    else:
                        rep.cov["unconfirmed_observations"] = rep.cov.get("unconfirmed_observations", 0) + 1
                        rep.replay_file("unconfirmed_div_%d.case" % (b0 + ci), "# differed once at op %d (%s), not on re-run\n# impl : %s\n# model: %s\n" % (k, line, io, mo) + "\n".join(case) + "\n")
                    break
    if diverged and not rep.violations:
        ci, k, line, io, mo = diverged[0]
        p = rep.replay_file("diverge_%d.case" % ci, "# model and implementation differ at op %d: %s\n# impl : %s\n# model: %s\n# (%d cases diverge; the spec oracle found no violation)\n" % (k, line, io, mo, len(diverged)) + "\n".join(cases[ci]) + "\n")
        rep.violation(p, "correspondence protocol model<->code broken on %d cases; first: op %r\n impl =%r\n model=%r" % (len(diverged), line, io, mo), nofail=True)
    rep.cov["distinct_nontrivial"] += len(distinct)
    rep.cov["cases"] = rep.cov.get("cases", 0) + len(cases)
    rep.cov["model_impl_divergences"] = rep.cov.get("model_impl_divergences", 0) + len(diverged)
    if cases:
        rep.cov["samples"] += [cases[0][:16], cases[len(cases) // 2][:16]]


def std_prelude(rep, prop, propfile, tag, drivers=("proto",)):
    """gen_consts, coq build + gate, model build, nng build.  Returns (proof_ok, cb, bdir, msg)"""
    ok, msg = gen_consts(tag)
    cb = coq_build(propfile)
    gate = coq_gate()
    rep.proof_cov(cb, "make -C coq Props/%s.vo && coqc Props/%s.v (Print Assumptions) ; grep gate" % (propfile, propfile))
    proof_ok = ok and cb["ok"] and not gate
    why = "; ".join(gate[:3]) if gate else (msg if not ok else "see log")
    model_build(*drivers)
    bdir, err = nng_build("asan")
    if bdir is None:
        p = rep.replay_file("build_failed.txt", err)
        rep.violation(p, "nng does not build", nofail=True)
    return proof_ok, cb, bdir, why
