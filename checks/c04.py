# C04 -- REQ/REP: replies reach only the matching outstanding request (DESIGN 5/C04)
# (the generators and the REQ oracle are shared with checks/c12.py)
import random
from protolib import *

KNOWN_TEXT = {
    "req-clone-policy": "req.c clones (req0_run_send_queue) and frees (req0_ctx_reset, req0_recv_cb) the request keyed on the *current* "
                        "ctx->retry: changing NNG_OPT_REQ_RESENDTIME between request and reply gives a use-after-free "
                        "(infinite -> finite) or leaks the request (finite -> infinite)",
    "req-cancel-send-assert": "req.c req0_ctx_cancel_send asserts recv_aio == NULL: cancelling (or timing out) a send that is still "
                              "waiting for a pipe while a receive is already posted on the same context aborts the process "
                              "(NNI_ASSERT; with assertions compiled out the receive is orphaned)",
    "req-noretry-stashed-reply-lost": "req.c req0_recv_cb leaves the context on the pipe's list: with resending disabled a reply that "
                                      "was received and stashed is thrown away when its connection is lost afterwards and the "
                                      "receive fails with NNG_ECONNRESET (after a delivered reply the next receive reports a spurious NNG_ECONNRESET instead of NNG_ESTATE)",
}

RESENDS = [-1, 5000, 60000]


def fixed_flags():
    """C04_*_FIXED of coq/Gen/Consts.v (written by tools/gen_consts_d/c04_reqrep.py from the current source)"""
    import re as _re
    txt = open(os.path.join(COQ, "Gen", "Consts.v")).read()
    return {m.group(1): m.group(2) == "true" for m in _re.finditer(r"Definition C04_(\w+)_FIXED : bool := (true|false)", txt)}


def words(rng, n):
    """n backtrace words with the high bit clear"""
    return "".join("%02x%06x" % (rng.randrange(0x80), rng.randrange(1 << 24)) for _ in range(n))


class G:
    """bookkeeping of a generated script"""
    def __init__(self, rng):
        self.rng, self.lines, self.npipes, self.naio, self.nmsg, self.ctxs = rng, [], 0, 0, 0, []
        self.sends, self.recvs = {}, {}     # target -> aios

    def tgt(self):
        return self.rng.choice(["s0"] + self.ctxs + self.ctxs)

    def body(self, tag):
        self.nmsg += 1
        return "%s%04x" % (tag, self.nmsg)

    def aio(self):
        self.naio += 1
        return "a%d" % (self.naio - 1)


def gen_req_case(rng, timed=False, allow_opt_change=False, allow_cancel_send=False):
    g = G(rng)
    L = g.lines
    L.append("open s0 req0")
    resend = rng.choice(RESENDS) if (timed or rng.random() < 0.5) else None
    tick = 1000
    if resend is not None:
        L.append("setopt s0 req:resend-time ms %d" % resend)
    if timed and rng.random() < 0.3:
        tick = 3000
        L.append("setopt s0 req:resend-tick ms %d" % tick)
    consts = {tick, 5000, 60000}
    for k in range(rng.choice([0, 0, 1, 2, 3])):
        L.append("ctx c%d s0" % k); g.ctxs.append("c%d" % k)
        if rng.random() < 0.4:
            r = rng.choice(RESENDS)
            L.append("setopt c%d req:resend-time ms %d" % (k, r))
    if rng.random() < 0.1:
        L.append("setopt s0 ttl-max int %d" % rng.choice([0, 1, 8, 15, 16]))
    nreq = 0          # requests submitted so far = upper bound on [R<n>] tokens
    instants = [0]
    now = 0
    recv_after_send = {}
    last_send_aio = {}
    for _ in range(rng.randrange(4, 50)):
        r = rng.random()
        if r < 0.10 and g.npipes < 3:
            L.append("conn s0 %d" % (49 if rng.random() < 0.93 else 48)); g.npipes += 1
        elif r < 0.26:
            t = g.tgt()
            if rng.random() < 0.7:
                a = g.aio(); L.append("send %s %s - %s" % (t, a, g.body("aa"))); last_send_aio[t] = a
            else:
                L.append("sendnb %s - %s" % (t, g.body("aa")))
            nreq += 1; recv_after_send[t] = False
        elif r < 0.40:
            t = g.tgt()
            if rng.random() < 0.6:
                L.append("recv %s %s" % (t, g.aio())); recv_after_send[t] = True
            else:
                L.append("recvnb %s" % t)
        elif r < 0.58 and g.npipes:
            L.append("sent p%d%s" % (rng.randrange(g.npipes), " 31" if rng.random() < 0.04 else ""))
        elif r < 0.82 and g.npipes:
            p = rng.randrange(g.npipes)
            k = rng.random()
            if k < 0.55 and nreq:
                idw = "[R%d]" % max(0, nreq - 1 - rng.choice([0, 0, 0, 1, 2]))       # current / stale / other context's
            elif k < 0.65:
                idw = "[R%d]" % (nreq + 1)                                          # not yet on the wire (0 word)
            elif k < 0.75:
                idw = "%08x" % rng.choice([1, 0x7fffffff, 0x12345678])             # no high bit
            elif k < 0.85:
                idw = "%08x" % rng.choice([0x80000000, 0xffffffff, 0x8abcdef0])    # unknown id
            elif k < 0.92:
                idw = rng.choice(["", "aa", "aabbcc"])                              # shorter than an id: disconnect
            else:
                idw = words(rng, 1) + "[R%d]" % max(0, nreq - 1)                   # id hidden behind a backtrace word
            L.append("inject p%d %s" % (p, (idw + (g.body("bb") if len(idw) >= 8 else "")) or "-"))
        elif r < 0.87 and g.npipes:
            L.append("drop p%d" % rng.randrange(g.npipes))
        elif r < 0.92 and g.naio:
            a = "a%d" % rng.randrange(g.naio)
            # cancelling a queued send while a receive is posted on the same context asserts (known finding): probed separately
            risky = [t for t, sa in last_send_aio.items() if sa == a and recv_after_send.get(t)]
            if allow_cancel_send or not risky:
                L.append("cancel %s" % a)
        elif r < 0.935 and allow_opt_change:
            # changing the resend time while a request is outstanding: use-after-free / leak on the pinned tree (known finding)
            L.append("setopt %s req:resend-time ms %d" % (g.tgt(), rng.choice(RESENDS)))
        elif r < 0.94 and g.ctxs and rng.random() < 0.5:
            c = g.ctxs.pop(rng.randrange(len(g.ctxs))); L.append("ctxclose %s" % c)
        elif r < 0.97 and timed:
            for _try in range(8):
                d = rng.choice([2000, 2500, 3000, 4000, 6500, 7000, 10000, 30000, 61500, 65000])
                if all(abs((now + d) - (t0 + c)) >= 1000 for t0 in instants for c in consts):
                    now += d; L.append("advance %d" % d)
                    break
        else:
            L.append("poll")
        if now not in instants:
            instants.append(now)
        elif timed:
            pass
    if rng.random() < 0.4:
        # contexts first: nng_socket_close destroys open contexts while the reaper is still closing the
        # pipes, so the order of ctx_fini and pipe_close (ECLOSED or ECONNRESET / success) is a race
        for c in g.ctxs:
            L.append("ctxclose %s" % c)
        L.append("close s0")
    return L


def gen_rep_case(rng):
    g = G(rng)
    L = g.lines
    L.append("open s0 rep0")
    if rng.random() < 0.5:
        L.append("setopt s0 ttl-max int %d" % rng.choice([0, 1, 1, 2, 3, 5, 8, 15, 15, 16]))
    for k in range(rng.choice([0, 0, 1, 2, 3])):
        L.append("ctx c%d s0" % k); g.ctxs.append("c%d" % k)
    for _ in range(rng.randrange(4, 50)):
        r = rng.random()
        if r < 0.10 and g.npipes < 3:
            L.append("conn s0 %d" % (48 if rng.random() < 0.93 else 49)); g.npipes += 1
        elif r < 0.36 and g.npipes:
            nw = rng.choice([0, 0, 0, 1, 1, 2, 3, 4, 7, 8, 14, 15, 16, 20])
            k = rng.random()
            if k < 0.85:
                tail = "%08x" % (0x80000000 | rng.randrange(1 << 31))
            elif k < 0.93:
                tail = ""                                       # no terminating id
            else:
                tail = rng.choice(["80", "8000", "800000"])     # truncated id
            L.append("inject p%d %s" % (rng.randrange(g.npipes), (words(rng, nw) + tail + (g.body("cc") if len(tail) == 8 else "")) or "-"))
        elif r < 0.52:
            t = g.tgt()
            L.append("recv %s %s" % (t, g.aio()) if rng.random() < 0.55 else "recvnb %s" % t)
        elif r < 0.70:
            t = g.tgt()
            L.append("send %s %s - %s" % (t, g.aio(), g.body("dd")) if rng.random() < 0.6 else "sendnb %s - %s" % (t, g.body("dd")))
        elif r < 0.84 and g.npipes:
            L.append("sent p%d%s" % (rng.randrange(g.npipes), " 31" if rng.random() < 0.04 else ""))
        elif r < 0.89 and g.npipes:
            L.append("drop p%d" % rng.randrange(g.npipes))
        elif r < 0.94 and g.naio:
            L.append("cancel a%d" % rng.randrange(g.naio))
        elif r < 0.96 and g.ctxs:
            c = g.ctxs.pop(rng.randrange(len(g.ctxs))); L.append("ctxclose %s" % c)
        else:
            L.append("poll")
    if rng.random() < 0.4:
        # contexts first: nng_socket_close destroys open contexts while the reaper is still closing the
        # pipes, so the order of ctx_fini and pipe_close (ECLOSED or ECONNRESET / success) is a race
        for c in g.ctxs:
            L.append("ctxclose %s" % c)
        L.append("close s0")
    return L


def gen_xreq_case(rng):
    g = G(rng)
    L = g.lines
    L.append("open s0 req0_raw")
    for o in ("send-buffer", "recv-buffer"):
        if rng.random() < 0.5:
            L.append("setopt s0 %s int %d" % (o, rng.choice([0, 1, 2, 3, 4])))
    for _ in range(rng.randrange(4, 45)):
        r = rng.random()
        if r < 0.10 and g.npipes < 3:
            L.append("conn s0 %d" % (49 if rng.random() < 0.93 else 48)); g.npipes += 1
        elif r < 0.30:
            hdr = words(rng, rng.choice([0, 0, 1, 2])) + "%08x" % (0x80000000 | rng.randrange(1 << 31))
            if rng.random() < 0.1:
                hdr = "-"
            L.append("send s0 %s %s %s" % (g.aio(), hdr, g.body("aa")) if rng.random() < 0.5 else "sendnb s0 %s %s" % (hdr, g.body("aa")))
        elif r < 0.46:
            L.append("recv s0 %s" % g.aio() if rng.random() < 0.5 else "recvnb s0")
        elif r < 0.62 and g.npipes:
            L.append("sent p%d%s" % (rng.randrange(g.npipes), " 31" if rng.random() < 0.04 else ""))
        elif r < 0.82 and g.npipes:
            nw = rng.choice([0, 0, 1, 2, 5, 14, 15, 16, 20])
            k = rng.random()
            tail = "%08x" % (0x80000000 | rng.randrange(1 << 31)) if k < 0.85 else ("" if k < 0.93 else "80ff")
            L.append("inject p%d %s" % (rng.randrange(g.npipes), (words(rng, nw) + tail + (g.body("bb") if len(tail) == 8 else "")) or "-"))
        elif r < 0.86 and g.npipes:
            L.append("drop p%d" % rng.randrange(g.npipes))
        elif r < 0.91 and g.naio:
            L.append("cancel a%d" % rng.randrange(g.naio))
        elif r < 0.96:
            L.append("setopt s0 %s int %d" % (rng.choice(["send-buffer", "recv-buffer"]), rng.choice([0, 1, 2, 3, 4, 8193])))
        else:
            L.append("setopt s0 ttl-max int %d" % rng.choice([0, 1, 8, 15, 16]))
    for _ in range(4):
        L.append("recvnb s0")
    if rng.random() < 0.4:
        # contexts first: nng_socket_close destroys open contexts while the reaper is still closing the
        # pipes, so the order of ctx_fini and pipe_close (ECLOSED or ECONNRESET / success) is a race
        for c in g.ctxs:
            L.append("ctxclose %s" % c)
        L.append("close s0")
    return L


def gen_xrep_case(rng):
    g = G(rng)
    L = g.lines
    L.append("open s0 rep0_raw")
    if rng.random() < 0.5:
        L.append("setopt s0 ttl-max int %d" % rng.choice([0, 1, 1, 2, 3, 5, 8, 15, 15, 16]))
    if rng.random() < 0.5:
        L.append("setopt s0 recv-buffer int %d" % rng.choice([0, 1, 2, 3, 4]))
    for _ in range(rng.randrange(4, 45)):
        r = rng.random()
        if r < 0.10 and g.npipes < 3:
            L.append("conn s0 %d" % (48 if rng.random() < 0.93 else 49)); g.npipes += 1
        elif r < 0.34 and g.npipes:
            nw = rng.choice([0, 0, 0, 1, 1, 2, 3, 4, 7, 8, 14, 15, 16, 20])
            k = rng.random()
            tail = "%08x" % (0x80000000 | rng.randrange(1 << 31)) if k < 0.85 else ("" if k < 0.93 else "80ff")
            L.append("inject p%d %s" % (rng.randrange(g.npipes), (words(rng, nw) + tail + (g.body("cc") if len(tail) == 8 else "")) or "-"))
        elif r < 0.50:
            L.append("recv s0 %s" % g.aio() if rng.random() < 0.5 else "recvnb s0")
        elif r < 0.70:
            k = rng.random()
            if k < 0.75 and g.npipes:
                hdr = "[P%d]" % rng.randrange(g.npipes) + words(rng, rng.choice([0, 0, 1, 2])) + "%08x" % (0x80000000 | rng.randrange(1 << 31))
            elif k < 0.85:
                hdr = "%08x" % rng.choice([0, 0x7fffff01, 0xdeadbeef, 0x00ffff02])      # no such pipe (the model numbers pipes 1, 2, ..)
            else:
                hdr = rng.choice(["-", "aa", "aabbcc"])                        # shorter than a pipe id
            L.append("send s0 %s %s %s" % (g.aio(), hdr, g.body("dd")) if rng.random() < 0.5 else "sendnb s0 %s %s" % (hdr, g.body("dd")))
        elif r < 0.84 and g.npipes:
            L.append("sent p%d%s" % (rng.randrange(g.npipes), " 31" if rng.random() < 0.04 else ""))
        elif r < 0.88 and g.npipes:
            L.append("drop p%d" % rng.randrange(g.npipes))
        elif r < 0.92 and g.naio:
            L.append("cancel a%d" % rng.randrange(g.naio))
        elif r < 0.97:
            L.append("setopt s0 %s int %d" % (rng.choice(["send-buffer", "recv-buffer"]), rng.choice([0, 1, 2, 3, 4])))
        else:
            L.append("poll")
    for _ in range(4):
        L.append("recvnb s0")
    if rng.random() < 0.4:
        # contexts first: nng_socket_close destroys open contexts while the reaper is still closing the
        # pipes, so the order of ctx_fini and pipe_close (ECLOSED or ECONNRESET / success) is a race
        for c in g.ctxs:
            L.append("ctxclose %s" % c)
        L.append("close s0")
    return L
