# C04 -- REQ/REP: replies reach only the matching outstanding request (DESIGN 5/C04)
# (the generators and the REQ oracle are shared with checks/c12.py)
import random
from protolib import *

KNOWN_TEXT = {
    "req-clone-policy": "req.c clones (req0_run_send_queue) and frees (req0_ctx_reset, req0_recv_cb) the request keyed on the *current* "
                        "ctx->retry: changing NNG_OPT_REQ_RESENDTIME between request and reply gives a use-after-free "
                        "(infinite -> finite) or leaks the request (finite -> infinite)",
    "req-cancel-send-assert": "req.c req0_ctx_cancel_send asserts recv_aio == NULL: cancelling (or timing out) a send that is still "
                              "waiting for a pipe while a receive is already posted on the same context aborts the process "
                              "(NNI_ASSERT; with assertions compiled out the receive is orphaned)",
    "req-noretry-stashed-reply-lost": "req.c req0_recv_cb leaves the context on the pipe's list: with resending disabled a reply that "
                                      "was received and stashed is thrown away when its connection is lost afterwards and the "
                                      "receive fails with NNG_ECONNRESET (after a delivered reply the next receive reports a spurious NNG_ECONNRESET instead of NNG_ESTATE)",
}

RESENDS = [-1, 5000, 60000]


def fixed_flags():
    """C04_*_FIXED of coq/Gen/Consts.v (written by tools/gen_consts_d/c04_reqrep.py from the current source)"""
    import re as _re
    txt = open(os.path.join(COQ, "Gen", "Consts.v")).read()
    return {m.group(1): m.group(2) == "true" for m in _re.finditer(r"Definition C04_(\w+?)(?:_FIXED)? : bool := (true|false)", txt)}


def words(rng, n):
    """n backtrace words with the high bit clear"""
    return "".join("%02x%06x" % (rng.randrange(0x80), rng.randrange(1 << 24)) for _ in range(n))


class G:
    """bookkeeping of a generated script"""
    def __init__(self, rng):
        self.rng, self.lines, self.npipes, self.naio, self.nmsg, self.ctxs = rng, [], 0, 0, 0, []
        self.sends, self.recvs = {}, {}     # target -> aios

    def tgt(self):
        return self.rng.choice(["s0"] + self.ctxs + self.ctxs)

    def body(self, tag):
        self.nmsg += 1
        return "%s%04x" % (tag, self.nmsg)

    def aio(self):
        self.naio += 1
        return "a%d" % (self.naio - 1)


def gen_req_case(rng, timed=False, allow_opt_change=False, allow_cancel_send=False):
    g = G(rng)
    L = g.lines
    L.append("open s0 req0")
    resend = rng.choice(RESENDS) if (timed or rng.random() < 0.5) else None
    tick = 1000
    if resend is not None:
        L.append("setopt s0 req:resend-time ms %d" % resend)
    if timed and rng.random() < 0.3:
        tick = 3000
        L.append("setopt s0 req:resend-tick ms %d" % tick)
    consts = {tick, 5000, 60000}
    for k in range(rng.choice([0, 0, 1, 2, 3])):
        L.append("ctx c%d s0" % k); g.ctxs.append("c%d" % k)
        if rng.random() < 0.4:
            r = rng.choice(RESENDS)
            L.append("setopt c%d req:resend-time ms %d" % (k, r))
    if rng.random() < 0.1:
        L.append("setopt s0 ttl-max int %d" % rng.choice([0, 1, 8, 15, 16]))
    nreq = 0          # requests submitted so far = upper bound on [R<n>] tokens
    instants = [0]
    now = 0
    recv_after_send = {}
    last_send_aio = {}
    live = 0          # pipes believed usable
    for _ in range(rng.randrange(4, 50)):
        r = rng.random()
        if r < 0.10 and g.npipes < 3:
            ok = rng.random() < 0.93
            L.append("conn s0 %d" % (49 if ok else 48)); g.npipes += 1; live += 1 if ok else 0
        elif r < 0.16 and live:
            # a whole exchange: request, transport takes it, (receive posted before or after the reply), reply with the id just used
            t = g.tgt()
            for p in range(g.npipes):
                L.append("sent p%d" % p)
            a = g.aio(); L.append("send %s %s %s %s" % (t, a, app_hdr(rng, nreq, g.npipes), g.body("aa"))); last_send_aio[t] = a; nreq += 1; recv_after_send[t] = False
            early = rng.random() < 0.5
            if early:
                L.append("recv %s %s" % (t, g.aio())); recv_after_send[t] = True
            if rng.random() < 0.7:
                for p in range(g.npipes):
                    L.append("sent p%d" % p)
            for p in range(g.npipes):
                L.append("inject p%d [R%d]%s" % (p, nreq - 1, g.body("bb")))       # the first one matches, the others are duplicates
            if not early:
                L.append("recvnb %s" % t if rng.random() < 0.5 else "recv %s %s" % (t, g.aio()))
        elif r < 0.19 and live:
            # an exchange whose receive is cancelled (or times out) after the request went out: the request is
            # aborted, a late reply must be discarded and a further receive fail with NNG_ESTATE
            t = g.tgt()
            for p in range(g.npipes):
                L.append("sent p%d" % p)
            a = g.aio(); L.append("send %s %s - %s" % (t, a, g.body("aa"))); last_send_aio[t] = a; nreq += 1
            for p in range(g.npipes):
                L.append("sent p%d" % p)
            ra = g.aio(); L.append("recv %s %s" % (t, ra)); recv_after_send[t] = True
            L.append("cancel %s" % ra)
            for p in range(g.npipes):
                L.append("inject p%d [R%d]%s" % (p, nreq - 1, g.body("bb")))
            L.append("recvnb %s" % t if rng.random() < 0.5 else "recv %s %s" % (t, g.aio()))
        elif r < 0.26:
            t = g.tgt()
            if rng.random() < 0.7:
                a = g.aio(); L.append("send %s %s %s %s" % (t, a, app_hdr(rng, nreq, g.npipes), g.body("aa"))); last_send_aio[t] = a
            else:
                L.append("sendnb %s %s %s" % (t, app_hdr(rng, nreq, g.npipes), g.body("aa")))
            nreq += 1 if live else 0; recv_after_send[t] = False
        elif r < 0.40:
            t = g.tgt()
            if rng.random() < 0.6:
                L.append("recv %s %s" % (t, g.aio())); recv_after_send[t] = True
            else:
                L.append("recvnb %s" % t)
        elif r < 0.58 and g.npipes:
            L.append("sent p%d%s" % (rng.randrange(g.npipes), " 31" if rng.random() < 0.04 else ""))
        elif r < 0.82 and g.npipes:
            p = rng.randrange(g.npipes)
            k = rng.random()
            if k < 0.45 and nreq:
                idw = "[R%d]" % max(0, nreq - 1 - rng.choice([0, 0, 0, 1, 2]))       # current / stale / other context's
            elif k < 0.57 and nreq:
                # an id the peer was not shown: abandoned before it reached the wire, refused, or still queued
                idw = "[R%d%+d]" % (max(0, nreq - 1 - rng.choice([0, 0, 1])), rng.choice([-2, -1, -1, 1, 1, 2, 3]))
            elif k < 0.65:
                idw = "[R%d]" % (nreq + 1)                                          # not yet on the wire (0 word)
            elif k < 0.75:
                idw = "%08x" % rng.choice([1, 0x7fffffff, 0x12345678])             # no high bit
            elif k < 0.85:
                idw = "%08x" % rng.choice([0x80000000, 0xffffffff, 0x8abcdef0])    # unknown id
            elif k < 0.92:
                idw = rng.choice(["", "aa", "aabbcc"])                              # shorter than an id: disconnect
            else:
                idw = words(rng, 1) + "[R%d]" % max(0, nreq - 1)                   # id hidden behind a backtrace word
            L.append("inject p%d %s" % (p, (idw + (g.body("bb") if (len(idw) >= 8 or idw.startswith("[")) else "")) or "-"))
        elif r < 0.84 and not live and g.npipes < 3 and rng.random() < 0.35:
            # a request that never reaches the wire: queued for want of a pipe, abandoned, then a pipe connects
            t = g.tgt()
            a = g.aio(); L.append("send %s %s %s %s" % (t, a, app_hdr(rng, nreq, g.npipes), g.body("aa"))); last_send_aio[t] = a; recv_after_send[t] = False
            k = rng.random()
            if k < 0.4:
                L.append("cancel %s" % a)
            elif k < 0.7:
                a = g.aio(); L.append("send %s %s - %s" % (t, a, g.body("aa"))); last_send_aio[t] = a; nreq += 1
            elif k < 0.85 and t in g.ctxs:
                g.ctxs.remove(t); L.append("ctxclose %s" % t)
            L.append("conn s0 49"); g.npipes += 1; live += 1
        elif r < 0.87 and g.npipes:
            L.append("drop p%d" % rng.randrange(g.npipes)); live = max(0, live - 1)
        elif r < 0.92 and g.naio:
            a = "a%d" % rng.randrange(g.naio)
            # cancelling a queued send while a receive is posted on the same context asserts (known finding): probed separately
            risky = [t for t, sa in last_send_aio.items() if sa == a and recv_after_send.get(t)]
            if allow_cancel_send or not risky:
                L.append("cancel %s" % a)
        elif r < 0.935 and allow_opt_change:
            # changing the resend time while a request is outstanding: use-after-free / leak on the pinned tree (known finding)
            L.append("setopt %s req:resend-time ms %d" % (g.tgt(), rng.choice(RESENDS)))
        elif r < 0.94 and g.ctxs and rng.random() < 0.5:
            c = g.ctxs.pop(rng.randrange(len(g.ctxs))); L.append("ctxclose %s" % c)
        elif r < 0.97 and timed:
            for _try in range(8):
                d = rng.choice([2000, 2500, 3000, 4000, 6500, 7000, 10000, 30000, 61500, 65000])
                if all(abs((now + d) - (t0 + c)) >= 1000 for t0 in instants for c in consts):
                    now += d; L.append("advance %d" % d)
                    break
        else:
            L.append("poll")
        if now not in instants:
            instants.append(now)
        elif timed:
            pass
    if rng.random() < 0.4:
        # contexts first: nng_socket_close destroys open contexts while the reaper is still closing the
        # pipes, so the order of ctx_fini and pipe_close (ECLOSED or ECONNRESET / success) is a race
        for c in g.ctxs:
            L.append("ctxclose %s" % c)
        L.append("close s0")
    return L


def app_hdr(rng, nseen=0, npipes=0, ids=()):
    """a header the application leaves on a message it hands to a cooked send: empty most of the time, else 1-3 words --
    random words with and without the high bit, the id of a live request ([R<n>] on a REQ socket, a literal on a REP
    socket), a pipe id.  A cooked send must ignore all of it."""
    if rng.random() < 0.6:
        return "-"
    out = []
    for _ in range(rng.choice([1, 1, 2, 3])):
        k = rng.random()
        if k < 0.25:
            out.append("%08x" % (0x80000000 | rng.randrange(1 << 31)))
        elif k < 0.45:
            out.append(words(rng, 1))
        elif k < 0.65 and nseen:
            out.append("[R%d]" % rng.randrange(nseen))
        elif k < 0.65 and ids:
            out.append(rng.choice(list(ids)))
        elif k < 0.80 and npipes:
            out.append("[P%d]" % rng.randrange(npipes))
        elif k < 0.90:
            out.append(rng.choice(["80000000", "ffffffff", "00000000", "7fffffff"]))
        else:
            out.append("%08x" % rng.randrange(1 << 32))
    return "".join(out)


def gen_req_ids_case(rng):
    """directed histories about ids the peer was never shown.  Every send allocates the next request id, also a send
    that never reaches the wire; ids are consecutive, so a peer can name them: the id with allocation number q is
    spelt relative to an id seen on the wire ([R<j>+d] / [R<j>-d], resolved by the drivers).  Phases, in random order:
      exchange   an ordinary request/reply (teaches the peer an id), duplicates of the reply, ESTATE afterwards
      abandon    no ready pipe -> send queued -> abandoned by {cancel, aio timeout, a second send on the same context,
                 closing the context, cancelling a receive posted meanwhile, or a refused non-blocking send} -> a pipe
                 connects -> the next request goes out -> the peer answers the abandoned id first, then the right one
      premature  one request occupies the pipe, one or two more are queued behind it -> the peer answers the queued
                 ids before they are on the wire, then again when they are
    The generator keeps exact track of ids and of the one pipe it uses, so every token means what the comment says."""
    g = G(rng)
    L = g.lines
    L.append("open s0 req0")
    resend = rng.choice([None, -1, 60000])
    if resend is not None:
        L.append("setopt s0 req:resend-time ms %d" % resend)
    tgts = ["s0"]
    for k in range(rng.choice([1, 2, 2, 3])):
        L.append("ctx c%d s0" % k); tgts.append("c%d" % k)
    st = {"alloc": 0, "seen": [], "pipe": None, "busy": False, "nadv": 0}

    def idtok(q):
        if q in st["seen"]:
            return "[R%d]" % st["seen"].index(q)
        j = len(st["seen"]) - 1
        return "[R%d%+d]" % (j, q - st["seen"][j])

    def alloc():
        st["alloc"] += 1
        return st["alloc"] - 1

    def hdr():
        return app_hdr(rng, len(st["seen"]), g.npipes)

    def conn():
        L.append("conn s0 49"); st["pipe"] = g.npipes; g.npipes += 1; st["busy"] = False

    def sent():
        if st["pipe"] is not None and st["busy"]:
            L.append("sent p%d" % st["pipe"]); st["busy"] = False

    def take(t):
        """the application collects the reply of t: once, then ESTATE"""
        L.append("recvnb %s" % t if rng.random() < 0.5 else "recv %s %s" % (t, g.aio()))
        if rng.random() < 0.7:
            L.append("recvnb %s" % t)

    def exchange():
        if st["pipe"] is None:
            conn()
        sent()
        t = rng.choice(tgts)
        q = alloc(); L.append("send %s %s %s %s" % (t, g.aio(), hdr(), g.body("aa"))); st["seen"].append(q); st["busy"] = True
        early = rng.random() < 0.5
        if early:
            L.append("recv %s %s" % (t, g.aio()))
        if rng.random() < 0.7:
            sent()
        p = st["pipe"]
        for _ in range(rng.choice([1, 1, 2])):
            L.append("inject p%d %s%s" % (p, idtok(q), g.body("bb")))
        if not early:
            take(t)
        elif rng.random() < 0.7:
            L.append("recvnb %s" % t)
        sent()

    def abandon():
        if not st["seen"]:
            exchange()
        if st["pipe"] is not None:
            sent(); L.append("drop p%d" % st["pipe"]); st["pipe"] = None
        t = rng.choice(tgts)
        modes = ["cancel", "replace", "recvcancel", "nbrefused"] + (["ctxclose"] if t != "s0" and len(tgts) > 2 else []) + (["timeout"] if st["nadv"] < 3 else [])
        mode = rng.choice(modes)
        a = g.aio()
        cur = None                       # allocation number of the request of t that is still wanted
        if mode == "nbrefused":
            q1 = alloc(); L.append("sendnb %s %s %s" % (t, hdr(), g.body("aa")))
        else:
            if mode == "timeout":
                L.append("aiotmo %s 1500" % a)
            q1 = alloc(); L.append("send %s %s %s %s" % (t, a, hdr(), g.body("aa")))
        if mode == "cancel":
            L.append("cancel %s" % a)
        elif mode == "timeout":
            L.append("advance 3000"); st["nadv"] += 1
        elif mode == "replace":
            cur = alloc(); L.append("send %s %s %s %s" % (t, g.aio(), hdr(), g.body("aa")))
        elif mode == "ctxclose":
            L.append("ctxclose %s" % t); tgts.remove(t)
        elif mode == "recvcancel":
            ra = g.aio(); L.append("recv %s %s" % (t, ra)); L.append("cancel %s" % ra)
        if rng.random() < 0.3:
            L.append("recvnb %s" % t if t in tgts else "poll")      # nothing outstanding (or still queued)
        conn()
        t2 = t if (t in tgts and rng.random() < 0.8) else rng.choice(tgts)
        if cur is not None:
            st["seen"].append(cur); st["busy"] = True; t2 = t       # the queued replacement goes out at once
        else:
            cur = alloc(); L.append("send %s %s %s %s" % (t2, g.aio(), hdr(), g.body("aa"))); st["seen"].append(cur); st["busy"] = True
        early = rng.random() < 0.6
        if early:
            L.append("recv %s %s" % (t2, g.aio()))
        if rng.random() < 0.7:
            sent()
        p = st["pipe"]
        L.append("inject p%d %s%s" % (p, idtok(q1), g.body("bb")))            # the abandoned id: never to be delivered
        if rng.random() < 0.3:
            L.append("inject p%d %s%s" % (p, idtok(q1), g.body("bb")))
        if rng.random() < 0.5:
            L.append("recvnb %s" % t2 if not early else "poll")
        L.append("inject p%d %s%s" % (p, idtok(cur), g.body("bb")))           # the right one
        if not early:
            take(t2)
        else:
            L.append("recvnb %s" % t2)
        sent()

    def premature():
        if len(tgts) < 2:
            return exchange()
        if st["pipe"] is None:
            conn()
        sent()
        ts = rng.sample(tgts, min(len(tgts), rng.choice([2, 2, 3])))
        qs = []
        for i, t in enumerate(ts):
            qs.append(alloc()); L.append("send %s %s %s %s" % (t, g.aio(), hdr(), g.body("aa")))
            if i == 0:
                st["seen"].append(qs[0]); st["busy"] = True
        early = [rng.random() < 0.6 for _ in ts]
        for t, e in zip(ts, early):
            if e:
                L.append("recv %s %s" % (t, g.aio()))
        p = st["pipe"]
        for q in qs[1:]:
            L.append("inject p%d %s%s" % (p, idtok(q), g.body("bb")))         # not yet on the wire: never to be delivered
        for i in range(1, len(ts)):
            if rng.random() < 0.4:
                L.append("recvnb %s" % ts[i])
            L.append("sent p%d" % p); st["seen"].append(qs[i])               # the next queued request goes out
            if rng.random() < 0.5 and i + 1 < len(ts):
                L.append("inject p%d %s%s" % (p, idtok(qs[i + 1]), g.body("bb")))
        order = list(range(len(ts)))
        rng.shuffle(order)
        for i in order:
            L.append("inject p%d %s%s" % (p, idtok(qs[i]), g.body("bb")))
            if not early[i]:
                take(ts[i])
            elif rng.random() < 0.5:
                L.append("recvnb %s" % ts[i])
        sent()

    exchange() if rng.random() < 0.6 else None
    for _ in range(rng.choice([1, 2, 2, 3])):
        rng.choice([abandon, abandon, premature, premature, exchange])()
    if rng.random() < 0.4:
        for c in tgts[1:]:
            L.append("ctxclose %s" % c)
        L.append("close s0")
    return L


def gen_rep_case(rng):
    g = G(rng)
    L = g.lines
    L.append("open s0 rep0")
    if rng.random() < 0.5:
        L.append("setopt s0 ttl-max int %d" % rng.choice([0, 1, 1, 2, 3, 5, 8, 15, 15, 16]))
    for k in range(rng.choice([0, 0, 1, 2, 3])):
        L.append("ctx c%d s0" % k); g.ctxs.append("c%d" % k)
    ids = []            # request ids the requesters used (what an application header may imitate)
    for _ in range(rng.randrange(4, 50)):
        r = rng.random()
        if r < 0.10 and g.npipes < 3:
            L.append("conn s0 %d" % (48 if rng.random() < 0.93 else 49)); g.npipes += 1
        elif r < 0.36 and g.npipes:
            nw = rng.choice([0, 0, 0, 1, 1, 2, 3, 4, 7, 8, 14, 15, 16, 20])
            k = rng.random()
            if k < 0.85:
                tail = "%08x" % (0x80000000 | rng.randrange(1 << 31)); ids.append(tail)
            elif k < 0.93:
                tail = ""                                       # no terminating id
            else:
                tail = rng.choice(["80", "8000", "800000"])     # truncated id
            L.append("inject p%d %s" % (rng.randrange(g.npipes), (words(rng, nw) + tail + (g.body("cc") if len(tail) == 8 else "")) or "-"))
        elif r < 0.52:
            t = g.tgt()
            L.append("recv %s %s" % (t, g.aio()) if rng.random() < 0.55 else "recvnb %s" % t)
        elif r < 0.70:
            t = g.tgt()
            h = app_hdr(rng, 0, g.npipes, ids[-4:])
            L.append("send %s %s %s %s" % (t, g.aio(), h, g.body("dd")) if rng.random() < 0.6 else "sendnb %s %s %s" % (t, h, g.body("dd")))
        elif r < 0.84 and g.npipes:
            L.append("sent p%d%s" % (rng.randrange(g.npipes), " 31" if rng.random() < 0.04 else ""))
        elif r < 0.89 and g.npipes:
            L.append("drop p%d" % rng.randrange(g.npipes))
        elif r < 0.94 and g.naio:
            L.append("cancel a%d" % rng.randrange(g.naio))
        elif r < 0.96 and g.ctxs:
            c = g.ctxs.pop(rng.randrange(len(g.ctxs))); L.append("ctxclose %s" % c)
        else:
            L.append("poll")
    if rng.random() < 0.4:
        # contexts first: nng_socket_close destroys open contexts while the reaper is still closing the
        # pipes, so the order of ctx_fini and pipe_close (ECLOSED or ECONNRESET / success) is a race
        for c in g.ctxs:
            L.append("ctxclose %s" % c)
        L.append("close s0")
    return L


def gen_rep_queue_case(rng):
    """directed: several contexts (and the socket) hold requests that came over the same pipe; their replies meet a busy pipe --
    blocking ones are queued behind it, non-blocking ones are refused (slot kept) and retried; the transport takes them one at a
    time; queued replies are cancelled or lose their pipe; afterwards every context tries a second reply without a new request
    (NNG_ESTATE, nothing more on the wire).  Application headers on every reply."""
    g = G(rng)
    L = g.lines
    L.append("open s0 rep0")
    n = rng.choice([2, 3, 3, 4])
    tgts = ["s0"] if rng.random() < 0.5 else []
    for k in range(n - len(tgts)):
        L.append("ctx c%d s0" % k); g.ctxs.append("c%d" % k); tgts.append("c%d" % k)
    L.append("conn s0 48"); g.npipes = 1
    two = rng.random() < 0.3
    if two:
        L.append("conn s0 48"); g.npipes = 2
    ids = []
    for rnd in range(rng.choice([1, 1, 2])):
        rng.shuffle(tgts)
        for t in tgts:
            rid = "%08x" % (0x80000000 | rng.randrange(1 << 31)); ids.append(rid)
            L.append("inject p%d %s%s%s" % (rng.randrange(g.npipes) if two else 0, words(rng, rng.choice([0, 0, 1, 2])), rid, g.body("cc")))
            L.append("recvnb %s" % t if rng.random() < 0.6 else "recv %s %s" % (t, g.aio()))
        queued = {}          # target -> aio of a blocking reply (possibly waiting behind the busy pipe)
        retry = []           # targets whose non-blocking reply may have been refused
        for t in tgts:
            h = app_hdr(rng, 0, g.npipes, ids[-4:])
            if rng.random() < 0.7:
                a = g.aio(); L.append("send %s %s %s %s" % (t, a, h, g.body("dd"))); queued[t] = a
            else:
                L.append("sendnb %s %s %s" % (t, h, g.body("dd"))); retry.append(t)
        k = rng.random()
        if k < 0.25 and queued:
            t = rng.choice(list(queued)); L.append("cancel %s" % queued[t])
        elif k < 0.35:
            L.append("drop p0")
        for _ in range(len(tgts) + 1):
            for p in range(g.npipes):
                L.append("sent p%d" % p)
            if retry and rng.random() < 0.7:
                t = retry.pop(0); L.append("sendnb %s %s %s" % (t, app_hdr(rng, 0, g.npipes, ids[-4:]), g.body("dd")))
        # a second reply without a new request
        for t in tgts:
            if rng.random() < 0.8:
                L.append("sendnb %s - %s" % (t, g.body("dd")) if rng.random() < 0.5 else "send %s %s %s %s" % (t, g.aio(), app_hdr(rng, 0, g.npipes, ids[-4:]), g.body("dd")))
        for p in range(g.npipes):
            L.append("sent p%d" % p)
        L.append("poll")
    if rng.random() < 0.4:
        for c in g.ctxs:
            L.append("ctxclose %s" % c)
        L.append("close s0")
    return L


def gen_xreq_case(rng):
    g = G(rng)
    L = g.lines
    L.append("open s0 req0_raw")
    for o in ("send-buffer", "recv-buffer"):
        if rng.random() < 0.5:
            L.append("setopt s0 %s int %d" % (o, rng.choice([0, 1, 2, 3, 4])))
    for _ in range(rng.randrange(4, 45)):
        r = rng.random()
        if r < 0.10 and g.npipes < 3:
            L.append("conn s0 %d" % (49 if rng.random() < 0.93 else 48)); g.npipes += 1
        elif r < 0.30:
            hdr = words(rng, rng.choice([0, 0, 1, 2])) + "%08x" % (0x80000000 | rng.randrange(1 << 31))
            if rng.random() < 0.1:
                hdr = "-"
            L.append("send s0 %s %s %s" % (g.aio(), hdr, g.body("aa")) if rng.random() < 0.5 else "sendnb s0 %s %s" % (hdr, g.body("aa")))
        elif r < 0.46:
            L.append("recv s0 %s" % g.aio() if rng.random() < 0.5 else "recvnb s0")
        elif r < 0.62 and g.npipes:
            L.append("sent p%d%s" % (rng.randrange(g.npipes), " 31" if rng.random() < 0.04 else ""))
        elif r < 0.82 and g.npipes:
            nw = rng.choice([0, 0, 1, 2, 5, 14, 15, 16, 20])
            k = rng.random()
            tail = "%08x" % (0x80000000 | rng.randrange(1 << 31)) if k < 0.85 else ("" if k < 0.93 else "80ff")
            L.append("inject p%d %s" % (rng.randrange(g.npipes), (words(rng, nw) + tail + (g.body("bb") if len(tail) == 8 else "")) or "-"))
        elif r < 0.86 and g.npipes:
            L.append("drop p%d" % rng.randrange(g.npipes))
        elif r < 0.91 and g.naio:
            L.append("cancel a%d" % rng.randrange(g.naio))
        elif r < 0.96:
            L.append("setopt s0 %s int %d" % (rng.choice(["send-buffer", "recv-buffer"]), rng.choice([0, 1, 2, 3, 4, 8193])))
        else:
            L.append("setopt s0 ttl-max int %d" % rng.choice([0, 1, 8, 15, 16]))
    for _ in range(4):
        L.append("recvnb s0")
    if rng.random() < 0.4:
        # contexts first: nng_socket_close destroys open contexts while the reaper is still closing the
        # pipes, so the order of ctx_fini and pipe_close (ECLOSED or ECONNRESET / success) is a race
        for c in g.ctxs:
            L.append("ctxclose %s" % c)
        L.append("close s0")
    return L


def gen_xrep_case(rng):
    g = G(rng)
    L = g.lines
    L.append("open s0 rep0_raw")
    if rng.random() < 0.5:
        L.append("setopt s0 ttl-max int %d" % rng.choice([0, 1, 1, 2, 3, 5, 8, 15, 15, 16]))
    if rng.random() < 0.5:
        L.append("setopt s0 recv-buffer int %d" % rng.choice([0, 1, 2, 3, 4]))
    for _ in range(rng.randrange(4, 45)):
        r = rng.random()
        if r < 0.10 and g.npipes < 3:
            L.append("conn s0 %d" % (48 if rng.random() < 0.93 else 49)); g.npipes += 1
        elif r < 0.34 and g.npipes:
            nw = rng.choice([0, 0, 0, 1, 1, 2, 3, 4, 7, 8, 14, 15, 16, 20])
            k = rng.random()
            tail = "%08x" % (0x80000000 | rng.randrange(1 << 31)) if k < 0.85 else ("" if k < 0.93 else "80ff")
            L.append("inject p%d %s" % (rng.randrange(g.npipes), (words(rng, nw) + tail + (g.body("cc") if len(tail) == 8 else "")) or "-"))
        elif r < 0.50:
            L.append("recv s0 %s" % g.aio() if rng.random() < 0.5 else "recvnb s0")
        elif r < 0.70:
            k = rng.random()
            if k < 0.75 and g.npipes:
                hdr = "[P%d]" % rng.randrange(g.npipes) + words(rng, rng.choice([0, 0, 1, 2])) + "%08x" % (0x80000000 | rng.randrange(1 << 31))
            elif k < 0.85:
                hdr = "%08x" % rng.choice([0, 0x7fffff01, 0xdeadbeef, 0x00ffff02])      # no such pipe (the model numbers pipes 1, 2, ..)
            else:
                hdr = rng.choice(["-", "aa", "aabbcc"])                        # shorter than a pipe id
            L.append("send s0 %s %s %s" % (g.aio(), hdr, g.body("dd")) if rng.random() < 0.5 else "sendnb s0 %s %s" % (hdr, g.body("dd")))
        elif r < 0.84 and g.npipes:
            L.append("sent p%d%s" % (rng.randrange(g.npipes), " 31" if rng.random() < 0.04 else ""))
        elif r < 0.88 and g.npipes:
            L.append("drop p%d" % rng.randrange(g.npipes))
        elif r < 0.92 and g.naio:
            L.append("cancel a%d" % rng.randrange(g.naio))
        elif r < 0.97:
            L.append("setopt s0 %s int %d" % (rng.choice(["send-buffer", "recv-buffer"]), rng.choice([0, 1, 2, 3, 4])))
        else:
            L.append("poll")
    for _ in range(4):
        L.append("recvnb s0")
    if rng.random() < 0.4:
        # contexts first: nng_socket_close destroys open contexts while the reaper is still closing the
        # pipes, so the order of ctx_fini and pipe_close (ECLOSED or ECONNRESET / success) is a race
        for c in g.ctxs:
            L.append("ctxclose %s" % c)
        L.append("close s0")
    return L


# ------------------------------------------------------------------ oracles (implementation's own observations only)
def _deliveries(o, recv_target):
    """[(target, body)] of messages handed to the application in this observation"""
    out = []
    for a, rv, extra in o["done"]:
        if rv == 0 and extra and a in recv_target:
            out.append((recv_target[a], extra.split("/")[1], extra.split("/")[0]))
    return out


def oracle_req(case, obs, raw, c12=False, stats=None):
    """C04 (and C12 when c12) for a cooked REQ socket."""
    cur = {}            # target -> dict(body, rid token or None, wire_since=op index or None, delivered=bool, ntx=int)
    by_body = {}        # request body -> its record
    recv_target = {}    # recv aio -> target
    send_target = {}    # send aio -> (target, body)
    pend_recv = {}      # target -> aio pending
    injected = {}       # reply body -> (rid token, op index)
    resend = {}         # target -> resend time in effect
    sock_resend = 60000
    open_ctx = set()
    tx_seen = {}        # pipe -> current tx string
    pipe_of = {}        # request body -> pipe it was last written to
    lost_noretry = set()  # targets whose connection was lost with resending disabled (may report ECONNRESET once)
    answered = {}       # target -> body of the request whose reply the application has collected (nothing is outstanding)
    for k, line in enumerate(case):
        t = line.split()
        o = obs[k] if k < len(obs) else None
        if o is None:
            return (k, "no observation")
        op = t[0]
        if op == "ctx" and o["rv"] == 0:
            open_ctx.add(t[1]); resend[t[1]] = sock_resend
        elif op == "setopt" and o["rv"] == 0 and t[2] == "req:resend-time":
            if t[1] == "s0":
                sock_resend = int(t[4])
            resend[t[1]] = int(t[4])
        tgt = t[1] if op in ("send", "sendnb", "recv", "recvnb") else None
        if op in ("send", "sendnb"):
            body = t[4] if op == "send" else t[3]
            # a new request supersedes the old one of this target, whatever happens to it
            old = cur.get(tgt)
            if op == "send":
                send_target[int(t[2][1:])] = (tgt, body)
            accepted = (op == "send" and o["rv"] == 0) or (op == "sendnb" and o["rv"] == 0)
            failed_now = any(a == int(t[2][1:]) and rv != 0 for a, rv, e in o["done"]) if op == "send" else (o["rv"] != 0)
            if old is not None:
                old["superseded"] = True
            if o["rv"] != 7:
                answered.pop(tgt, None)
            if pend_recv.get(tgt) is not None and o["rv"] != 7 and not (op == "send" and o["rv"] == 4):
                a = pend_recv[tgt]
                if not any(x == a and rv == 20 for x, rv, e in o["done"]):
                    return (k, "a new request did not cancel the pending receive a%d with NNG_ECANCELED" % a)
            if accepted and not failed_now:
                rec = {"body": body, "rid": None, "wire": None, "delivered": 0, "ntx": 0, "tgt": tgt, "superseded": False,
                       "resend": resend.get(tgt, sock_resend), "apphdr": t[3] if op == "send" else t[2]}
                cur[tgt] = rec; by_body[body] = rec
            else:
                cur[tgt] = None
        # what is on the wire now
        for i, p in o["pipes"].items():
            tx = p.get("tx")
            if tx != tx_seen.get(i):
                tx_seen[i] = tx
                if tx:
                    hdr, body = tx.split("/")
                    rec = by_body.get(body)
                    if rec is None:
                        return (k, "a message that no request of the application carries was transmitted: %s" % tx)
                    # what goes out is a fresh request id followed by the body, whatever header the application left on the message
                    if not re.match(r"^\[R\d+\]$", hdr):
                        return (k, "request %s transmitted with header %s: not exactly one request id (the header the application supplied is %s)"
                                % (body, hdr, rec.get("apphdr")))
                    if any(r2 is not rec and r2["rid"] == hdr for r2 in by_body.values()):
                        return (k, "request %s transmitted with id %s, which another request of this socket carries" % (body, hdr))
                    if rec["rid"] is None:
                        rec["rid"] = hdr; rec["wire"] = k
                    elif rec["rid"] != hdr:
                        return (k, "request %s retransmitted with a different id (%s, first %s)" % (body, hdr, rec["rid"]))
                    rec["ntx"] += 1
                    pipe_of[body] = i
                    if stats is not None and rec["ntx"] > 1:
                        stats["retransmissions"] = stats.get("retransmissions", 0) + 1
                    if c12 and rec["resend"] < 0 and rec["ntx"] > 1:
                        return (k, "request %s was put on the wire %d times although resending is disabled" % (body, rec["ntx"]))
                    if rec["superseded"]:
                        return (k, "request %s was (re)transmitted after a newer request replaced it" % body)
        if op == "inject" and o["rv"] == 0:
            # a relative token ([R<n>+k]) is judged by the spelling the driver reports: [R<m>] if it is an id that has
            # been on the wire, otherwise it names an id the peer was never shown
            m = re.match(r"^(\[R\d+(?:[+-]\d+)?\]|[0-9a-f]{8})((?:[0-9a-f]{2})*)$", o.get("inj") or t[2])
            if m and m.group(2):
                injected[m.group(2)] = (m.group(1), k)
        if op in ("ctxclose", "close"):
            for tg in list(answered):
                if op == "close" or tg == t[1]:
                    answered.pop(tg)
        if op in ("recv", "recvnb") and tgt in answered and o["rv"] not in (7, 12):
            # the reply to the last request has been collected and no new request was made
            a = int(t[2][1:]) if op == "recv" else None
            res = o["rv"] if op == "recvnb" else ([rv for x, rv, e in o["done"] if x == a] or [None])[0]
            if op == "recv" and o["rv"] != 0:
                res = 11        # the driver refused (aio in use): says nothing about the socket
            if res != 11 and not (o["got"] or any(x == a and rv == 0 for x, rv, e in o["done"])):
                return (k, "%s has collected the reply to its request %s and made no new request: a receive must fail with NNG_ESTATE, not %s"
                        % (tgt, answered[tgt], "stay pending" if res is None else "return %s" % res))
        if op == "recv":
            if o["rv"] == 0:
                a = int(t[2][1:]); recv_target[a] = tgt
                done_now = [(rv, e) for x, rv, e in o["done"] if x == a]
                if pend_recv.get(tgt) is not None:
                    if not done_now or done_now[0][0] not in (11, 19):
                        return (k, "a second concurrent receive on %s did not fail with NNG_ESTATE" % tgt)
                elif cur.get(tgt) is None and not any(r.get("tgt") == tgt for r in by_body.values()):
                    if not done_now or done_now[0][0] != 11:
                        return (k, "receive before any request on %s did not fail with NNG_ESTATE" % tgt)
                if not done_now:
                    pend_recv[tgt] = a
        if op == "recvnb" and cur.get(tgt) is None and not any(r.get("tgt") == tgt for r in by_body.values()) and o["rv"] != 11:
            return (k, "receive before any request on %s returned %d, not NNG_ESTATE" % (tgt, o["rv"]))
        got = _deliveries(o, recv_target)
        if o["got"] and tgt:
            got.append((tgt, o["got"].split("/")[1], o["got"].split("/")[0]))
        for a, rv, e in o["done"]:
            for tg, pa in list(pend_recv.items()):
                if pa == a:
                    pend_recv[tg] = None
            # a cancelled (or timed-out) receive aborts the request: replies to it are "replies to cancelled
            # requests" from now on (a new request on the same target in this very op has replaced it already)
            if a in recv_target and rv in (20, 5) and not (op in ("send", "sendnb") and tgt == recv_target[a]):
                cur[recv_target[a]] = None
        for tg, body, hdr in got:
            if stats is not None:
                stats["deliveries"] = stats.get("deliveries", 0) + 1
            if body not in injected:
                return (k, "%s received %s, which no peer sent as a reply" % (tg, body))
            rid, kin = injected[body]
            rec = cur.get(tg)
            if rec is None:
                return (k, "%s received reply %s without an outstanding request" % (tg, body))
            if rec["rid"] is None:
                return (k, "%s received reply %s (id %s) although its outstanding request %s has not been on the wire yet" % (tg, body, rid, rec["body"]))
            if rid != rec["rid"]:
                return (k, "%s received reply %s carrying id %s, its outstanding request %s has id %s" % (tg, body, rid, rec["body"], rec["rid"]))
            if kin < rec["wire"]:
                return (k, "%s received reply %s that arrived before its request %s was on the wire" % (tg, body, rec["body"]))
            if rec["delivered"]:
                return (k, "%s received a second reply (%s) to request %s" % (tg, body, rec["body"]))
            if hdr != "-":
                return (k, "reply delivered with a non-empty header %s" % hdr)
            rec["delivered"] += 1
            answered[tg] = rec["body"]
        if c12:
            # connection loss with resending disabled: the pending receive fails with ECONNRESET (never hangs, never ECLOSED)
            for a, rv, e in o["done"]:
                if a in recv_target and rv == 19:
                    rec = cur.get(recv_target[a])
                    if stats is not None:
                        stats["connreset"] = stats.get("connreset", 0) + 1
                    if rec is not None and rec["resend"] >= 0 and not rec["superseded"]:
                        return (k, "receive failed with NNG_ECONNRESET although resending is enabled (%d ms)" % rec["resend"])
    return None


def oracle_rep(case, obs, raw, stats=None):
    """C04 for a cooked REP socket: reply only to the origin pipe, with the backtrace of the request most recently received by
    that context, once; send before receive => ESTATE; second concurrent receive => ESTATE"""
    ttl = 8
    have = {}           # target -> (pipe, backtrace hex) of the request most recently received and not yet answered
    recv_target, pend_recv = {}, {}
    send_aio = {}       # aio -> (target, body)
    expect_tx = {}      # reply body -> (pipe, backtrace)
    inj = {}            # request body -> (pipe, backtrace hex)
    tx_seen = {}
    gone = set()
    for k, line in enumerate(case):
        t = line.split()
        o = obs[k] if k < len(obs) else None
        if o is None:
            return (k, "no observation")
        op = t[0]
        if op == "setopt" and t[2] == "ttl-max" and o["rv"] == 0:
            ttl = int(t[4])
        if op == "inject" and o["rv"] == 0 and t[2] != "-":
            h = t[2]
            nw = 0
            while len(h) >= 8 and int(h[0:2], 16) < 0x80:
                h = h[8:]; nw += 1
            if len(h) >= 8:
                bt = t[2][:8 * (nw + 1)]; body = t[2][8 * (nw + 1):]
                if body:
                    inj[body] = (int(t[1][1:]), bt, nw + 1)
        tgt = t[1] if op in ("send", "sendnb", "recv", "recvnb") else None
        got = []
        if o["got"] and tgt:
            got.append((tgt, o["got"]))
        if op == "recv" and o["rv"] == 0:
            a = int(t[2][1:]); recv_target[a] = tgt
            done_now = [rv for x, rv, e in o["done"] if x == a]
            if pend_recv.get(tgt) is not None and (not done_now or done_now[0] != 11):
                return (k, "a second concurrent receive on %s did not fail with NNG_ESTATE" % tgt)
            if not done_now:
                pend_recv[tgt] = a
        for a, rv, e in o["done"]:
            for tg, pa in list(pend_recv.items()):
                if pa == a:
                    pend_recv[tg] = None
            if rv == 0 and e and a in recv_target:
                got.append((recv_target[a], e))
        for tg, g in got:
            hdr, body = g.split("/")
            if body not in inj:
                return (k, "%s received %s, which no requester sent" % (tg, body))
            if hdr != "-":
                return (k, "cooked REP delivered a request with a header (%s)" % hdr)
            p, bt, nwords = inj[body]
            if nwords > ttl:
                return (k, "request %s with %d backtrace words delivered although the TTL is %d" % (body, nwords, ttl))
            have[tg] = (p, bt)
            if stats is not None:
                stats["requests_delivered"] = stats.get("requests_delivered", 0) + 1
        if op in ("send", "sendnb"):
            body = t[4] if op == "send" else t[3]
            h = have.get(tgt)
            if op == "send" and o["rv"] == 0:
                a = int(t[2][1:])
                dn = [rv for x, rv, e in o["done"] if x == a]
                if h is None:
                    if not dn or dn[0] != 11:
                        return (k, "send on %s without a received request did not fail with NNG_ESTATE" % tgt)
                else:
                    if dn and dn[0] == 11:
                        pass        # refused: a previous reply of this context still waits for its pipe (slot kept)
                    else:
                        expect_tx[body] = h; have[tgt] = None
            elif op == "sendnb":
                if h is None:
                    if o["rv"] != 11:
                        return (k, "send on %s without a received request returned %d, not NNG_ESTATE" % (tgt, o["rv"]))
                elif o["rv"] == 0:
                    expect_tx[body] = h; have[tgt] = None
                elif o["rv"] == 8:
                    pass            # busy pipe: the reply slot is kept
                elif o["rv"] == 11:
                    pass
        for i, p in o["pipes"].items():
            tx = p.get("tx")
            if tx != tx_seen.get(i):
                tx_seen[i] = tx
                if tx:
                    hdr, body = tx.split("/")
                    if body not in expect_tx:
                        return (k, "reply %s transmitted on p%d but never accepted from the application (or transmitted twice)" % (body, i))
                    ep, ebt = expect_tx.pop(body)
                    if ep != i:
                        return (k, "reply %s sent to p%d, its request came from p%d" % (body, i, ep))
                    if hdr != ebt:
                        return (k, "reply %s sent with backtrace %s, its request had %s" % (body, hdr, ebt))
                    if stats is not None:
                        stats["replies_routed"] = stats.get("replies_routed", 0) + 1
    return None


def oracle_xrep(case, obs, raw, stats=None):
    """raw REP: receive pushes the pipe id and moves the backtrace (<= ttl words), send pops the pipe id and routes"""
    ttl = 8
    inj = {}
    sent = {}           # body -> (pipe or None, rest-of-header)
    tx_seen = {}
    for k, line in enumerate(case):
        t = line.split()
        o = obs[k] if k < len(obs) else None
        if o is None:
            return (k, "no observation")
        op = t[0]
        if op == "setopt" and t[2] == "ttl-max" and o["rv"] == 0:
            ttl = int(t[4])
        if op == "inject" and o["rv"] == 0 and t[2] != "-":
            h = t[2]; nw = 0
            while len(h) >= 8 and int(h[0:2], 16) < 0x80:
                h = h[8:]; nw += 1
            if len(h) >= 8 and t[2][8 * (nw + 1):]:
                inj[t[2][8 * (nw + 1):]] = (int(t[1][1:]), t[2][:8 * (nw + 1)], nw + 1)
        got = []
        if o["got"]:
            got.append(o["got"])
        for a, rv, e in o["done"]:
            if rv == 0 and e:
                got.append(e)
        for g in got:
            hdr, body = g.split("/")
            if body not in inj:
                return (k, "received %s, which no requester sent" % body)
            p, bt, nwords = inj[body]
            if hdr != "[P%d]%s" % (p, bt):
                return (k, "request %s delivered with header %s, expected the pipe id of p%d followed by %s" % (body, hdr, p, bt))
            if nwords > ttl:
                return (k, "request %s with %d backtrace words delivered although the TTL is %d" % (body, nwords, ttl))
            if stats is not None:
                stats["raw_requests_delivered"] = stats.get("raw_requests_delivered", 0) + 1
        if op in ("send", "sendnb"):
            hdr, body = (t[3], t[4]) if op == "send" else (t[2], t[3])
            m = re.match(r"^\[P(\d+)\](.*)$", hdr)
            sent[body] = (int(m.group(1)), m.group(2) or "-") if m else (None, None)
        for i, p in o["pipes"].items():
            tx = p.get("tx")
            if tx != tx_seen.get(i):
                tx_seen[i] = tx
                if tx:
                    hdr, body = tx.split("/")
                    if body not in sent:
                        return (k, "message %s transmitted but never sent by the application" % body)
                    ep, eh = sent[body]
                    if ep != i:
                        return (k, "reply %s went to p%d, its header named %s" % (body, i, "p%d" % ep if ep is not None else "no pipe"))
                    if hdr != eh:
                        return (k, "reply %s transmitted with header %s, expected %s (first word popped)" % (body, hdr, eh))
                    if stats is not None:
                        stats["raw_replies_routed"] = stats.get("raw_replies_routed", 0) + 1
    return None


def oracle_xreq(case, obs, raw, stats=None):
    """raw REQ: header ++ body goes out unchanged on some pipe, once; arriving backtraces are moved to the header up to the id"""
    sent, inj, tx_all = {}, {}, {}
    tx_seen = {}
    delivered = set()
    for k, line in enumerate(case):
        t = line.split()
        o = obs[k] if k < len(obs) else None
        if o is None:
            return (k, "no observation")
        op = t[0]
        if op in ("send", "sendnb"):
            hdr, body = (t[3], t[4]) if op == "send" else (t[2], t[3])
            sent[body] = hdr
        if op == "inject" and o["rv"] == 0 and t[2] != "-":
            h = t[2]; nw = 0
            while len(h) >= 8 and int(h[0:2], 16) < 0x80:
                h = h[8:]; nw += 1
            if len(h) >= 8 and t[2][8 * (nw + 1):]:
                inj[t[2][8 * (nw + 1):]] = (t[2][:8 * (nw + 1)], nw + 1)
        got = []
        if o["got"]:
            got.append(o["got"])
        for a, rv, e in o["done"]:
            if rv == 0 and e:
                got.append(e)
        for g in got:
            hdr, body = g.split("/")
            if body not in inj:
                return (k, "received %s, which no replier sent" % body)
            if body in delivered:
                return (k, "reply %s delivered twice" % body)
            delivered.add(body)
            if hdr != inj[body][0]:
                return (k, "reply %s delivered with header %s, expected %s" % (body, hdr, inj[body][0]))
            if inj[body][1] > 16:
                return (k, "reply %s with %d header words delivered (header capacity is 16 words)" % (body, inj[body][1]))
        for i, p in o["pipes"].items():
            tx = p.get("tx")
            if tx != tx_seen.get(i):
                tx_seen[i] = tx
                if tx:
                    hdr, body = tx.split("/")
                    if body not in sent:
                        return (k, "message %s transmitted but never sent by the application" % body)
                    if body in tx_all:
                        return (k, "message %s transmitted twice (p%d and p%d)" % (body, tx_all[body], i))
                    tx_all[body] = i
                    if hdr != sent[body]:
                        return (k, "message %s transmitted with header %s, the application gave %s" % (body, hdr, sent[body]))
    return None


STATS = {}


def oracle(case, obs, raw):
    proto = case[0].split()[2]
    if proto == "req0":
        return oracle_req(case, obs, raw, stats=STATS)
    if proto == "rep0":
        return oracle_rep(case, obs, raw, stats=STATS)
    if proto == "rep0_raw":
        return oracle_xrep(case, obs, raw, stats=STATS)
    return oracle_xreq(case, obs, raw, stats=STATS)


# the refutation witnesses of Properties_C04 / the reproducers of findings/c04/repro.txt, replayed on the library; on a
# repaired tree they are ordinary cases (the model follows the source through the C04_*_FIXED flags)
FIXED_CASES = [
    ["open s0 req0", "setopt s0 req:resend-time ms -1", "conn s0 49", "send s0 a0 - aa01", "sent p0", "setopt s0 req:resend-time ms 1000", "inject p0 [R0]bb", "recvnb s0"],
    ["open s0 req0", "conn s0 49", "send s0 a0 - aa01", "sent p0", "setopt s0 req:resend-time ms -1", "inject p0 [R0]bb", "recvnb s0", "close s0"],
    ["open s0 req0", "setopt s0 req:resend-time ms 5000", "send s0 a0 - aa01", "setopt s0 req:resend-time ms -1", "conn s0 49", "sent p0", "advance 7000", "sent p0"],
    ["open s0 req0", "send s0 a0 - aa01", "recv s0 a1", "cancel a0", "poll"],
    ["open s0 req0", "setopt s0 req:resend-time ms -1", "conn s0 49", "send s0 a0 - aa01", "sent p0", "inject p0 [R0]bb", "drop p0", "recvnb s0", "recvnb s0"],
    ["open s0 req0", "conn s0 49", "send s0 a0 - aa01", "sent p0", "inject p0 [R0]bb", "send s0 a1 - aa02", "recvnb s0"],
    ["open s0 rep0", "conn s0 48", "inject p0 80000001cc01", "recvnb s0", "inject p0 80000002cc02", "sendnb s0 - dd01", "sent p0 31", "recvnb s0"],
    ["open s0 rep0", "ctx c0 s0", "ctx c1 s0", "conn s0 48", "inject p0 80000001cc01", "inject p0 80000002cc02", "recvnb c0", "recvnb c1",
     "sendnb c0 - dd01", "sendnb c1 - dd02", "sent p0", "sendnb c1 - dd02"],
    ["open s0 rep0", "ctx c0 s0", "ctx c1 s0", "conn s0 48", "inject p0 80000001cc01", "inject p0 80000002cc02", "inject p0 80000003cc03", "recvnb c1",
     "send c1 a9 - dd00", "recvnb c0", "send c0 a0 - dd01", "recvnb c0", "send c0 a1 - dd02", "sent p0", "sent p0", "send c0 a2 - dd02", "sent p0", "sent p0"],
    # ids the peer was never shown.  A request abandoned before it reached the wire (cancelled / replaced / context closed
    # while it waited for a pipe) has consumed an id; a reply naming it ([R0-1]: the id before the first one seen) is discarded
    ["open s0 req0", "ctx c0 s0", "send c0 a0 - aa01", "cancel a0", "conn s0 49", "send c0 a1 - aa02", "recv c0 a2", "inject p0 [R0-1]bb01",
     "inject p0 [R0]bb02", "recvnb c0", "inject p0 [R0]bb03", "recvnb c0"],
    ["open s0 req0", "send s0 a0 - aa01", "send s0 a1 - aa02", "conn s0 49", "inject p0 [R0-1]bb01", "recvnb s0", "inject p0 [R0]bb02", "recvnb s0", "recvnb s0"],
    ["open s0 req0", "ctx c0 s0", "ctx c1 s0", "send c0 a0 - aa01", "ctxclose c0", "conn s0 49", "send c1 a1 - aa02", "inject p0 [R0-1]bb01", "inject p0 [R0]bb02",
     "recvnb c1", "recvnb c1"],
    ["open s0 req0", "ctx c0 s0", "aiotmo a0 1500", "send c0 a0 - aa01", "advance 3000", "conn s0 49", "send c0 a1 - aa02", "sent p0", "inject p0 [R0-1]bb01",
     "recvnb c0", "inject p0 [R0]bb02", "recvnb c0", "recvnb c0"],
    # a reply naming the id of a request that is still queued behind a busy pipe ([R0+1]) is discarded; once the request is out
    # the same id ([R1] by then) is answered
    ["open s0 req0", "ctx c0 s0", "ctx c1 s0", "conn s0 49", "send c0 a0 - aa01", "send c1 a1 - aa02", "recv c1 a2", "inject p0 [R0+1]bb01", "sent p0",
     "inject p0 [R1]bb02", "recvnb c1", "inject p0 [R0]bb03", "recvnb c0", "sent p0"],
    # whatever header the application leaves on a message, a cooked REQ sends id ++ body and a cooked REP backtrace ++ body
    ["open s0 req0", "ctx c0 s0", "conn s0 49", "send c0 a0 80000099 aa01", "sent p0", "send s0 a1 [P0]0000000780000098 aa02", "inject p0 [R0]bb01",
     "recvnb c0", "inject p0 [R1]bb02", "recvnb s0", "sendnb c0 [R0] aa03", "sent p0", "sent p0", "inject p0 [R2]bb03", "recvnb c0"],
    ["open s0 rep0", "ctx c0 s0", "conn s0 48", "inject p0 0123456780000042cc01", "recvnb c0", "send c0 a0 80000099 dd01", "sent p0", "inject p0 80000043cc02",
     "recvnb s0", "sendnb s0 [P0]7654321080000043 dd02", "sent p0", "inject p0 80000044cc03", "recvnb c0", "inject p0 80000045cc04", "recvnb s0",
     "send c0 a1 80000045 dd03", "send s0 a2 80000044ffffffff00000001 dd04", "sent p0", "sent p0"],
    # a reply queued behind a busy pipe has consumed its slot: once it is out, a second reply without a new request is refused
    ["open s0 rep0", "ctx c0 s0", "ctx c1 s0", "conn s0 48", "inject p0 80000001cc01", "inject p0 80000002cc02", "recvnb c0", "recvnb c1",
     "send c0 a0 - dd01", "send c1 a1 - dd02", "sent p0", "sent p0", "sendnb c1 - dd03", "send c1 a2 - dd04", "sent p0", "sendnb c0 - dd05"],
]
# which known finding a crash of a FIXED_CASE means on a tree that does not have the repair
FIXED_KEYS = {0: ("REQ_CLONE", "req-clone-policy"), 1: ("REQ_CLONE", "req-clone-policy"), 2: ("REQ_CLONE", "req-clone-policy"),
              3: ("REQ_CANCEL_SEND", "req-cancel-send-assert")}


def gen_case(rng, i, flags):
    full = flags.get("REQ_CLONE") and flags.get("REQ_CANCEL_SEND")
    w = i % 13
    if w < 4:
        return gen_req_case(rng, allow_opt_change=bool(full), allow_cancel_send=bool(full))
    if w < 6:
        return gen_req_ids_case(rng)
    if w < 9:
        return gen_rep_case(rng)
    if w < 10:
        return gen_rep_queue_case(rng)
    if w < 11:
        return gen_xreq_case(rng)
    return gen_xrep_case(rng)


def run(tier, seed, replay=None):
    rep = Report("C04", tier, seed)
    if os.environ.get("C04_ASSUME_KNOWN"):          # local override while findings are neither repaired nor listed
        for key, text in KNOWN_TEXT.items():
            rep.known.setdefault(key, text)
    proof_ok, cb, bdir, why = std_prelude(rep, "C04", "Properties_C04", "c04", drivers=("c04",))
    if bdir is None:
        return rep.finish()
    flags = fixed_flags()
    rng = random.Random(seed)
    n = 338 if tier == "quick" else 7800
    STATS.clear()
    if replay:
        cases = [[l.strip() for l in open(replay) if l.strip() and not l.startswith("#")]]
    else:
        # the reproducers of unrepaired crashes would kill the batch: run them apart
        fixed = []
        impl, err = wb_build(bdir, "wb_proto.c")
        for i, c in enumerate(FIXED_CASES):
            fk = FIXED_KEYS.get(i)
            if fk and not flags.get(fk[0], False):
                if impl is not None:
                    o, crash = run_cases(impl, [c], timeout=60)
                    if crash is not None:
                        p = rep.replay_file("known_%s_%d.case" % (fk[1], i), "# %s\n" % KNOWN_TEXT[fk[1]] + "\n".join(c) + "\n")
                        rep.violation(p, "REQ: " + KNOWN_TEXT[fk[1]] + " (%s)" % san_summary(crash[2]), key=fk[1])
                continue
            fixed.append(c)
        cases = load_corpus("C04") + fixed + [gen_case(rng, i, flags) for i in range(n)]
    proto_run(rep, "C04", tier, bdir, cases, oracle, model_driver="c04", label="REQ/REP")
    if not proof_ok and not rep.violations:
        proof_broken_report(rep, cb, "C04 theorems do not check (%s)" % why)
    rep.cov["source_repairs_detected"] = flags
    rep.cov["spec_clauses_exercised"] = dict(sorted(STATS.items()))
    rep.cov["rule"] = ("random histories over the deterministic transport, same script on the real library and on the extracted models: "
                       "REQ (4/13): socket context + 0-3 contexts, <= 3 pipes (right and wrong peer), resend time infinite / 5 s / 60 s per context, blocking and "
                       "non-blocking sends and receives, cancels, raw repliers injecting current / stale / other contexts' / unknown ids, ids without the high bit, "
                       "ids not yet on the wire, ids relative to a seen id ([R<n>+k]: consecutive allocation makes the ids of abandoned, refused and queued requests "
                       "predictable), ids behind a backtrace word, duplicates, truncated replies, transport completions one at a time, connection loss, requests "
                       "queued for want of a pipe and abandoned (cancel / replaced / context closed) before a pipe connects; "
                       "on a repaired tree also resend-time changes and send cancels at any point; "
                       "REQ directed (2/13, exact id bookkeeping): request abandoned before it reached the wire by cancel / aio timeout (virtual clock) / second send / "
                       "context close / receive cancel / refused non-blocking send, then a pipe connects, the next request goes out and the peer answers the "
                       "abandoned id first; requests queued behind a busy pipe answered before they are on the wire and again afterwards; "
                       "REP (3/13): TTL 1..15 (and invalid), backtraces of 0-20 words with / without / with a truncated id, 0-3 contexts, replies blocking and non-blocking, "
                       "busy pipes, cancels, pipe loss; every cooked send (REQ and REP) is given an empty header or 1-3 application header words (random, high bit set, "
                       "ids of live requests, pipe ids) that must not reach the wire; "
                       "REP directed (1/13): 2-4 contexts holding requests from the same pipe, replies queued behind the busy pipe / refused non-blocking and retried / "
                       "cancelled / losing the pipe, taken one at a time, then a second reply without a new request (NNG_ESTATE); "
                       "raw REQ (1/13) and raw REP (2/13): headers of 0-3 words, unknown / short pipe ids, queue depths 0-4, resizes.  "
                       "Oracle = the property's clauses evaluated on the implementation's observations (ids and pipes as tokens); non-trivial = some message moves")
    return rep.finish()
