# C08 -- PAIR: one peer at a time, ordered lossless exchange, hop limit (DESIGN 5/C08)
import os, random
from protolib import *

KINDS = ["pair0", "pair0_raw", "pair1", "pair1_raw"]
PEER = {"pair0": 16, "pair0_raw": 16, "pair1": 17, "pair1_raw": 17}
BUFS = [0, 1, 2, 3, 4]


def hop_values(rng, ttl):
    return [0, 1, ttl, ttl + 1, 0xfe, 0xff, 0x100, 1 << 31, (1 << 32) - 1, rng.randrange(1 << 32), rng.randrange(0, 20), ttl - 1 if ttl > 1 else 0]


def gen_case(rng, kind=None, focus=None):
    kind = kind or rng.choice(KINDS)
    v1 = kind.startswith("pair1")
    raw = kind.endswith("_raw")
    focus = focus or rng.choice(["mixed", "mixed", "out", "in", "hop", "peers", "grow"])
    lines = ["open s0 %s" % kind]
    npipes, naio, nmsg, ttl = 0, 0, 0, 8
    if rng.random() < 0.6:
        lines.append("setopt s0 send-buffer int %d" % rng.choice(BUFS))
    if rng.random() < 0.6:
        lines.append("setopt s0 recv-buffer int %d" % rng.choice(BUFS))
    if v1 and rng.random() < 0.5:
        ttl = rng.randrange(1, 16)
        lines.append("setopt s0 ttl-max int %d" % ttl)

    def send_hdr():
        if v1 and raw:
            r = rng.random()
            if r < 0.78:
                return "%08x" % rng.choice([0, 1, 2, ttl, ttl + 1, 0x7f, 0xfd, 0xfe, rng.randrange(0, 0xff)])
            if r < 0.90:
                return "%08x" % rng.choice([0xff, 0x100, 1 << 31, (1 << 32) - 1, rng.randrange(0xff, 1 << 32)])
            return rng.choice(["-", "00", "000001", "0000000100000002"])
        if rng.random() < 0.15:
            return rng.choice(["00000005", "01", "000000ff", "0000000100000002"])
        return "-"

    def inject_msg():
        nonlocal nmsg
        nmsg += 1
        body = "bb%04x" % nmsg
        if not v1:
            return rng.choice(["", "", "00000001"]) + body
        r = rng.random()
        if r < 0.06:
            return rng.choice(["-", "00", "0000", "000000"])
        if r < 0.09:
            return "%08x" % rng.choice(hop_values(rng, ttl))          # exactly four bytes: empty body
        w = 0.75 if focus != "hop" else 0.35
        if rng.random() < w:
            h = rng.choice([0, 1, ttl, max(ttl - 1, 0), rng.randrange(0, ttl + 1)])
        else:
            h = rng.choice(hop_values(rng, ttl))
        return "%08x%s" % (h, body)

    if focus == "grow":
        # blocked senders, then the send buffer grows, then more sends: nobody may be overtaken
        small = rng.choice([0, 0, 1, 2])
        lines.append("setopt s0 send-buffer int %d" % small)
        if rng.random() < 0.8:
            lines.append("conn s0 %d" % PEER[kind]); npipes += 1
        for _ in range(small + rng.randrange(2, 6)):
            nmsg += 1
            if rng.random() < 0.8 and naio < 50:
                lines.append("send s0 a%d %s aa%04x" % (naio, send_hdr() if (v1 and raw) else "-", nmsg)); naio += 1
            else:
                lines.append("sendnb s0 %s aa%04x" % (send_hdr() if (v1 and raw) else "-", nmsg))
        if rng.random() < 0.3 and npipes:
            lines.append("sent p%d" % (npipes - 1))
        lines.append("setopt s0 send-buffer int %d" % (small + rng.randrange(1, 4)))
        for _ in range(rng.randrange(1, 4)):
            nmsg += 1
            if rng.random() < 0.5 and naio < 50:
                lines.append("send s0 a%d %s aa%04x" % (naio, send_hdr() if (v1 and raw) else "-", nmsg)); naio += 1
            else:
                lines.append("sendnb s0 %s aa%04x" % (send_hdr() if (v1 and raw) else "-", nmsg))
        if not npipes:
            lines.append("conn s0 %d" % PEER[kind]); npipes += 1
        for _ in range(rng.randrange(0, 6)):
            lines.append("sent p%d" % (npipes - 1))
        focus = "out"
    wt = {"mixed": (0.10, 0.30, 0.52, 0.70, 0.82), "out": (0.08, 0.45, 0.75, 0.80, 0.86), "in": (0.08, 0.12, 0.16, 0.55, 0.85),
          "hop": (0.08, 0.14, 0.20, 0.62, 0.86), "peers": (0.30, 0.42, 0.55, 0.68, 0.80)}[focus]
    for _ in range(rng.randrange(4, 60)):
        r = rng.random()
        if r < wt[0] and npipes < 10:
            q = rng.random()
            peer = PEER[kind] if q < 0.85 else rng.choice([16, 17, 80, 0, 65535, 1, 33])
            lines.append("conn s0 %d" % peer); npipes += 1
        elif r < wt[1]:
            nmsg += 1
            if rng.random() < 0.6 or naio >= 58:
                lines.append("sendnb s0 %s aa%04x" % (send_hdr(), nmsg))
            else:
                lines.append("send s0 a%d %s aa%04x" % (naio, send_hdr(), nmsg)); naio += 1
        elif r < wt[2] and npipes:
            lines.append("sent p%d%s" % (rng.randrange(npipes), " 31" if rng.random() < 0.03 else ""))
        elif r < wt[3] and npipes:
            lines.append("inject p%d %s" % (rng.randrange(max(0, npipes - 3), npipes) if rng.random() < 0.9 else rng.randrange(npipes), inject_msg()))
        elif r < wt[4]:
            if rng.random() < 0.6 or naio >= 58:
                lines.append("recvnb s0")
            else:
                lines.append("recv s0 a%d" % naio); naio += 1
        else:
            q = rng.random()
            if q < 0.22:
                lines.append("setopt s0 send-buffer int %d" % rng.choice(BUFS + ([8192, 8193] if rng.random() < 0.1 else [])))
            elif q < 0.44:
                lines.append("setopt s0 recv-buffer int %d" % rng.choice(BUFS + ([8192, 8193] if rng.random() < 0.1 else [])))
            elif q < 0.60:
                t = rng.choice(list(range(1, 16)) + [0, 16])
                lines.append("setopt s0 ttl-max int %d" % t)
                if v1 and 1 <= t <= 15:
                    ttl = t
            elif q < 0.74 and npipes:
                lines.append("drop p%d" % rng.randrange(npipes))
            elif q < 0.90 and naio:
                lines.append("cancel a%d" % rng.randrange(naio))
            else:
                lines.append("poll")
    # drain: a fresh peer (accepted only if nobody is attached), then everything out and in
    lines.append("conn s0 %d" % PEER[kind]); npipes += 1
    for _ in range(8):
        for p in range(max(0, npipes - 3), npipes):
            lines.append("sent p%d" % p)
    for _ in range(8):
        lines.append("recvnb s0")
    if rng.random() < 0.5:
        lines.append("close s0")
    return lines


def boundary_cases():
    """every listed hop value at every TTL 1..15, cooked and raw: inject, receive, check the connection"""
    cases = []
    for kind in ("pair1", "pair1_raw"):
        for ttl in range(1, 16):
            c = ["open s0 %s" % kind, "setopt s0 ttl-max int %d" % ttl, "setopt s0 recv-buffer int 2", "conn s0 17"]
            k = 0
            for h in (0, 1, ttl, ttl + 1, 0xff, 0x100, 1 << 31, (1 << 32) - 1):
                k += 1
                c.append("inject p%d %08xbb%02x%02x" % (len([l for l in c if l.startswith("conn")]) - 1, h, ttl, k))
                c.append("recvnb s0")
                if h > 0xff:
                    c.append("conn s0 17")
            if kind == "pair1_raw":
                for h in (0, ttl, 0xfe, 0xff, 0x100, (1 << 32) - 1):
                    k += 1
                    c.append("sendnb s0 %08x aa%02x%02x" % (h, ttl, k))
                    c.append("sent p%d" % (len([l for l in c if l.startswith("conn")]) - 1))
            cases.append(c)
    return cases


def classify(kind, ttl, hexmsg):
    """the property's rule for a wire message from the peer: ('bad'|'drop'|'ok', hdr, body)"""
    if not kind.startswith("pair1"):
        return ("ok", "-", hexmsg if hexmsg != "-" else "-")
    b = "" if hexmsg == "-" else hexmsg
    if len(b) < 8:
        return ("bad", None, None)
    h = int(b[:8], 16)
    if h > 0xff:
        return ("bad", None, None)
    if h > ttl:
        return ("drop", None, None)
    return ("ok", "%08x" % h, b[8:] or "-")


def oracle(case, obs, raw):
    """C08 in the property's words, evaluated on the implementation's own observations."""
    kind = case[0].split()[2]
    v1, israw = kind.startswith("pair1"), kind.endswith("_raw")
    ttl = 8
    sbuf = 0
    rbuf = 0
    accepted, refused, pending_send = [], set(), {}
    subs, sub_idx = [], {}        # bodies in the order their sends were submitted by the script (blocked sends count from submission)
    sent_hdr = {}                 # body -> header given by the application
    tx_seen, cur_tx = [], {}      # transmitted bodies in order; pipe -> pending body
    strict_out = True
    inj = {}                      # pipe -> list of [class, hdr, body, consumed?]
    dropped = set()
    expected = []                 # valid consumed messages in consumption order: (hdr, body)
    optional = []                 # may have been consumed when the pipe went away
    delivered = []
    order_log = []                # consumption ("e" required, "o" optional) and delivery ("d") events in time order
    strict_in = True
    parked_loss = 0               # messages that may have been parked in a pipe's receive when it went down
    closures = 0                  # connections that went down (each may take one in-flight message with it)
    closed = False
    prev_open = set()
    for k, line in enumerate(case):
        t = line.split()
        o = obs[k] if k < len(obs) else None
        if o is None:
            return (k, "no observation")
        op = t[0]
        openp = set(i for i, p in o["pipes"].items() if p["st"] == "o")
        # a connection that went away may take with it the one message parked in its receive and
        # the one message in flight on its send
        for i in prev_open - openp:
            parked_loss += 1
            closures += 1
        # ---- one peer at a time
        if len(openp) > 1:
            return (k, "more than one peer attached at the same time: pipes %s" % sorted(openp))
        # ---- the protocol keeps reading its peer: a starved application (non-blocking receive answered NNG_EAGAIN)
        # while the open connection holds messages the peer has written and no receive is posted on it means the
        # protocol stopped reading (a lost re-arm): those messages are never delivered although nothing was dropped
        if op == "recvnb" and o["rv"] == 8 and not closed:
            for i in sorted(openp):
                pp = o["pipes"][i]
                if pp.get("inbox", 0) > 0 and pp.get("armed", 0) == 0:
                    return (k, "receive found nothing (NNG_EAGAIN) although the open connection p%d holds %d message(s) the peer has written and the "
                               "protocol has no receive posted on it: PAIR stopped reading its peer, the messages are never delivered" % (i, pp["inbox"]))
        if op == "conn" and o["newpipe"] is not None:
            n = o["newpipe"]
            if prev_open and n in openp:
                return (k, "a second connection was accepted while a peer is attached")
            if prev_open and not (prev_open <= openp):
                return (k, "refusing a second connection disturbed the attached peer")
            if not prev_open and int(t[2]) == PEER[kind] and n not in openp and not closed:
                return (k, "connection refused although no peer is attached")
            if int(t[2]) != PEER[kind] and n in openp:
                return (k, "peer with protocol number %s accepted" % t[2])
        # ---- application side results
        if op == "sendnb":
            sent_hdr[t[3]] = t[2]
            sub_idx[t[3]] = len(subs); subs.append(t[3])
            if o["rv"] == 0:
                accepted.append(t[3])
            elif o["rv"] in (8, 7, 13):
                refused.add(t[3])
            else:
                return (k, "unexpected result %d of a non-blocking send" % o["rv"])
        elif op == "send" and o["rv"] == 0:
            pending_send[int(t[2][1:])] = t[4]
            sent_hdr[t[4]] = t[3]
            sub_idx[t[4]] = len(subs); subs.append(t[4])
        elif op == "setopt" and o["rv"] == 0:
            if t[2] == "ttl-max":
                ttl = int(t[4])
            elif t[2] == "send-buffer":
                if int(t[4]) < sbuf:
                    strict_out = False
                sbuf = int(t[4])
            elif t[2] == "recv-buffer":
                if int(t[4]) < rbuf:
                    strict_in = False
                rbuf = int(t[4])
        elif op == "close":
            closed = True
            strict_out = strict_in = False
        elif op == "drop" and o["rv"] == 0:
            dropped.add(int(t[1][1:]))
        elif op == "inject" and o["rv"] == 0:
            inj.setdefault(int(t[1][1:]), []).append([t[2], False])
        got = []
        if o["got"]:
            got.append(o["got"])
        for a, rv, extra in o["done"]:
            if a in pending_send:
                b = pending_send.pop(a)
                if rv == 0:
                    accepted.append(b)
                else:
                    refused.add(b)
                    if extra != "kept":
                        return (k, "failed send did not leave the message with the caller")
            elif rv == 0 and extra:
                got.append(extra)
        # ---- what reached the transport
        for i, p in sorted(o["pipes"].items()):
            if p["st"] == "g":
                cur_tx.pop(i, None)
                continue
            if p.get("nt", 0) > 1:
                return (k, "more than one transport send pending on the connection")
            tx = p.get("tx")
            b = tx.split("/")[1] if tx else None
            if b != cur_tx.get(i):
                if b is not None:
                    if p["st"] != "o" or i not in openp:
                        return (k, "message handed to a connection that is not the attached peer")
                    if b in tx_seen:
                        return (k, "message %s transmitted twice" % b)
                    if b in refused:
                        return (k, "message %s was refused to the caller but transmitted anyway" % b)
                    if b not in accepted:
                        return (k, "message %s transmitted but not accepted from the application" % b)
                    h = tx.split("/")[0]
                    if v1:
                        want = "00000001" if not israw else ("%08x" % ((int(sent_hdr[b], 16) + 1) & 0xffffffff) if len(sent_hdr[b]) == 8 else None)
                        if h != want:
                            return (k, "message %s transmitted with hop header %s, expected %s" % (b, h, want))
                        if int(h, 16) > 0xff:
                            return (k, "message %s transmitted with a malformed hop header %s" % (b, h))
                    elif h != sent_hdr[b]:
                        return (k, "pair0 changed the header of %s: %s" % (b, h))
                    # delivered in send order: the order in which the application submitted the sends
                    # (a send that blocks counts from the moment it was submitted, not from its completion)
                    if tx_seen and sub_idx[b] < sub_idx[tx_seen[-1]]:
                        return (k, "message %s transmitted after %s although its send was submitted before it" % (b, tx_seen[-1]))
                    tx_seen.append(b)
                    if strict_out:
                        # nothing submitted earlier (and not refused / cancelled) may be missing -- whether its send
                        # has completed or is still blocked --, except one message per connection that went down
                        # (handed to it and lost with it before it could be observed)
                        gaps = [x for x in subs[:sub_idx[b]] if x not in tx_seen and x not in refused]
                        if len(gaps) > closures:
                            return (k, "messages overtaken or skipped on the way out although the connection stayed up: %s before %s" % (gaps[:4], b))
                cur_tx[i] = b
        # ---- what the socket consumed from the peers (a message is judged with the TTL in force when it
        #      is taken from the connection, not when the peer sent it)
        for i, lst in inj.items():
            p = o["pipes"].get(i)
            if p is None:
                continue
            if p["st"] == "o":
                ncons = len(lst) - p["inbox"]
                for j, e in enumerate(lst):
                    if j < ncons and not e[1]:
                        e[1] = True
                        cls, h, b = classify(kind, ttl, e[0])
                        if cls == "bad":
                            return (k, "a message with a malformed hop header was consumed and its sender stayed connected")
                        if cls == "ok":
                            expected.append((h, b))
                            order_log.append(("e", (h, b)))
            else:
                # the connection is gone: what was still unconsumed may or may not have been taken first
                rest = [e for e in lst if not e[1]]
                stop = False
                for e in rest:
                    e[1] = True
                    cls, h, b = classify(kind, ttl, e[0])
                    if cls == "bad":
                        stop = True
                    if cls == "ok" and not stop:
                        optional.append((h, b))
                        order_log.append(("o", (h, b)))
        # over-TTL / valid messages never disconnect
        if op == "inject" and o["rv"] == 0:
            i = int(t[1][1:])
            if i in prev_open and i not in openp and i not in dropped and all(classify(kind, 15, e[0])[0] != "bad" for e in inj.get(i, [])):
                return (k, "the connection was closed by a message that is not malformed (%s)" % t[2])
        # ---- deliveries
        for g in got:
            h, b = g.split("/")
            if (h, b) not in expected and (h, b) not in optional:
                return (k, "message %s delivered but no peer sent a deliverable message like it" % g)
            if delivered.count((h, b)) >= expected.count((h, b)) + optional.count((h, b)):
                return (k, "message %s delivered twice" % g)
            delivered.append((h, b))
            order_log.append(("d", (h, b)))
        prev_open = openp
    # order of delivery = order of arrival: match every delivery to the earliest unmatched arrival after
    # the previous match
    arrivals = [(kind_, x) for kind_, x in order_log if kind_ != "d"]
    cur, matched = 0, set()
    for x in delivered:
        j = cur
        while j < len(arrivals) and arrivals[j][1] != x:
            j += 1
        if j == len(arrivals):
            return (len(case) - 1, "messages delivered out of arrival order (%s/%s)" % x)
        matched.add(j)
        cur = j + 1
    unique = len(set(x for _, x in arrivals)) == len(arrivals)
    if strict_in and not closed and unique:
        gaps = [arrivals[j][1] for j in range(cur) if j not in matched and arrivals[j][0] == "e"]
        if len(gaps) > parked_loss:
            return (len(case) - 1, "messages skipped although their connection stayed up: %s" % gaps[:4])
        tail = [arrivals[j][1] for j in range(len(arrivals)) if j not in matched and arrivals[j][0] == "e"]
        drained = len(case) >= 4 and case[-1] == "recvnb s0" and all(obs[j] and obs[j]["rv"] == 8 for j in range(len(case) - 2, len(case)))
        if drained and len(tail) > parked_loss:
            return (len(case) - 1, "messages lost although their connection stayed up: %s" % tail[:4])
    if strict_out and not closed:
        last = obs[-1]
        if last and any(p["st"] == "o" and p.get("nt", 0) == 0 for p in last["pipes"].values()) and not pending_send:
            miss = [b for b in accepted if b not in tx_seen]
            if len(miss) > closures:
                return (len(case) - 1, "accepted messages never transmitted although a peer is attached and idle: %s" % miss[:4])
    return None


def run(tier, seed, replay=None):
    rep = Report("C08", tier, seed)
    proof_ok, cb, bdir, why = std_prelude(rep, "C08", "Properties_C08", "c08", drivers=("c08",))
    if bdir is None:
        return rep.finish()
    rng = random.Random(seed)
    n = 220 if tier == "quick" else 8000
    if replay:
        cases = [[l.strip() for l in open(replay) if l.strip() and not l.startswith("#")]]
    else:
        cases = load_corpus("C08") + boundary_cases() + [gen_case(rng, KINDS[i % 4]) for i in range(n)]
    proto_run(rep, "C08", tier, bdir, cases, oracle, model_driver="c08", label="PAIR")
    if not proof_ok and not rep.violations:
        proof_broken_report(rep, cb, "C08 theorems do not check (%s)" % why)
    hops = {}
    for c in cases:
        for l in c:
            t = l.split()
            if t[0] == "inject" and len(t[2]) >= 8 and c[0].split()[2].startswith("pair1"):
                h = int(t[2][:8], 16)
                key = "0" if h == 0 else "1" if h == 1 else "2..15" if h < 16 else "16..0xfe" if h < 0xff else "0xff" if h == 0xff else "0x100" if h == 0x100 else "2^31" if h == 1 << 31 else "2^32-1" if h == (1 << 32) - 1 else ">0x100"
                hops[key] = hops.get(key, 0) + 1
    rep.cov["hop_header_histogram"] = hops
    rep.cov["rule"] = ("random histories on one PAIR socket (pair0, pair0_raw, pair1, pair1_raw in turn) over the deterministic transport: connects by right and wrong peers at "
                       "arbitrary times, blocking/non-blocking sends (raw: crafted hop headers, wrong header lengths) and receives, transport completions one at a time, injected wire "
                       "messages with hop headers 0, 1, ttl-1, ttl, ttl+1, 0xfe, 0xff, 0x100, 2^31, 2^32-1 and random, short messages, ttl-max 1..15 (and 0, 16), send/recv buffer "
                       "depths 0..4 (and 8192, 8193) resized mid-stream, peer loss, cancels, a final drain; plus a deterministic sweep of every listed hop value at every TTL; same "
                       "script on the real library and on the extracted model; non-trivial = some message moves; distinct = distinct scripts")
    return rep.finish()
