# C11 -- hostile or broken peers cannot crash, wedge or bypass size limits (DESIGN 5/C11; PARTIAL)
#
# proof part : Props/Properties_C11.v -- the receive paths as total functions over arbitrary byte streams
#              (Codec/SpFrameModel.v, SpConnModel.v, C16's WebSocket/HTTP models, Proto/*Backtrace.v, PairModel)
# correspondence + search for failing inputs (this is fuzz-like exploration, NOT the proof): grammar-based and mutated
#   sessions for SP/TCP, SP/IPC, socket://, SP/WS (+HTTP upgrade), SP/UDP against real listeners / dialers of several
#   protocols of the ASan/UBSan build; truncation at every byte offset of seed sessions; RECVMAXSZ in {0, small, default};
#   after every hostile session a well-behaved control connection to the same endpoint must be served; a watchdog bounds
#   CPU and wall time per session.  The extracted model predicts per session what is delivered and whether the
#   connection is closed; the spec oracle below judges the implementation's observations independently of the model.
# partial: that the C does not crash / corrupt memory outside the modelled decoders is observed here, not proved.
import hashlib, random, re, struct, time
from vlib import *
import c01 as C1
import c16 as C16

hx, unhx, rbytes, frame, sp_hdr = C1.hx, C1.unhx, C1.rbytes, C1.frame, C1.sp_hdr
CPU_LIMIT_MS = 1500          # per session, process CPU (all nng threads); a spinning decoder burns far more
DEFAULT_RCVMAX = 1 << 30


def proto_table():
    """name -> (self id, peer id, kind); read from the current source like C01's table"""
    def macro(path, name):
        t = open(os.path.join(REPO, path)).read()
        m = re.search(r"#define\s+%s\s+NNI_PROTO\((\d+),\s*(\d+)\)" % name, t)
        if m:
            return int(m.group(1)) * 16 + int(m.group(2))
        m = re.search(r"#define\s+%s\s+(0x[0-9a-fA-F]+|\d+)" % name, t)
        return int(m.group(1), 0) if m else None
    P = "src/sp/protocol/"
    t = {}
    t["pair0"] = (macro(P + "pair0/pair.c", "NNI_PROTO_PAIR_V0"),) * 2
    t["pull"] = (macro(P + "pipeline0/pull.c", "NNI_PROTO_PULL_V0"), macro(P + "pipeline0/pull.c", "NNI_PROTO_PUSH_V0"))
    t["sub"] = (macro(P + "pubsub0/sub.c", "NNI_PROTO_SUB_V0"), macro(P + "pubsub0/sub.c", "NNI_PROTO_PUB_V0"))
    t["bus"] = (macro(P + "bus0/bus.c", "NNI_PROTO_BUS_V0"),) * 2
    t["rep"] = (macro(P + "reqrep0/rep.c", "REP0_SELF"), macro(P + "reqrep0/rep.c", "REP0_PEER"))
    t["xrep"] = (macro(P + "reqrep0/xrep.c", "REP0_SELF"), macro(P + "reqrep0/xrep.c", "REP0_PEER"))
    t["req"] = (macro(P + "reqrep0/req.c", "REQ0_SELF"), macro(P + "reqrep0/req.c", "REQ0_PEER"))
    t["xreq"] = (macro(P + "reqrep0/xreq.c", "REQ0_SELF"), macro(P + "reqrep0/xreq.c", "REQ0_PEER"))
    t["respondent"] = (macro(P + "survey0/respond.c", "NNI_PROTO_RESPONDENT_V0"), macro(P + "survey0/respond.c", "NNI_PROTO_SURVEYOR_V0"))
    t["xrespondent"] = (macro(P + "survey0/xrespond.c", "NNI_PROTO_RESPONDENT_V0"), macro(P + "survey0/xrespond.c", "NNI_PROTO_SURVEYOR_V0"))
    t["surveyor"] = (macro(P + "survey0/survey.c", "SURVEYOR0_SELF"), macro(P + "survey0/survey.c", "SURVEYOR0_PEER"))
    t["pair1"] = (macro(P + "pair1/pair.c", "PAIR1_SELF"), macro(P + "pair1/pair.c", "PAIR1_PEER"))
    return t


PT = {}
HDR_PROTOS = ("rep", "xrep", "respondent", "xrespondent", "xreq")   # backtrace words in front of the body
MAX_HDR = 64                                                          # sizeof m_header_buf: 16 words
MULTI = ["pull", "sub", "bus", "xrep", "rep", "xrespondent", "respondent"]


def bt(rng, hops):
    return b"".join(struct.pack(">I", rng.getrandbits(31)) for _ in range(hops)) + struct.pack(">I", 0x80000000 | rng.getrandbits(31))


def valid_payload(rng, proto, n=None):
    body = rbytes(rng, rng.choice([0, 1, 5, 32]) if n is None else n)
    if proto == "xreq":
        return bt(rng, rng.choice([0, 0, 1, 3, 14, 15])) + body      # a raw REQ takes replies of up to 16 words (no TTL: the header buffer is the bound)
    if proto in HDR_PROTOS:
        return bt(rng, rng.choice([0, 0, 1, 3])) + body
    if proto in ("req", "surveyor"):
        return struct.pack(">I", 0x80000000 | rng.getrandbits(31)) + body
    if proto == "pair1":
        return struct.pack(">I", rng.choice([0, 1, 7])) + body
    return body


def ctl_payload(proto):
    if proto in HDR_PROTOS:
        return struct.pack(">I", 0x80000001) + b"k"
    if proto == "pair1":
        return struct.pack(">I", 1) + b"k"
    return b"k"


class Sess:
    def __init__(self, tag, tran, role, proto, rcvmax, stream, cuts=(), flags="w", ctl=True, nexp=4, rng=None):
        self.tag, self.tran, self.role, self.proto, self.rcvmax, self.stream, self.flags = tag, tran, role, proto, rcvmax, stream, flags
        me, peer = PT[proto]
        ctlhex = "-"
        if ctl:
            # protocols that deliver nothing unsolicited: the control connection only has to get through the negotiation
            # (the message must pass every RECVMAXSZ used here: at most 5 bytes)
            ctlhex = "=" if proto in ("req", "surveyor") else hx(ctl_payload(proto))
        self.kind = "sess"
        self.line = "sess %s %s %s %d %s %s %s %s %d %d %d" % (tran, role, proto, rcvmax, hx(stream), C1.cuts_str(cuts), flags,
                                                              ctlhex, nexp, me, peer)


class Line:
    def __init__(self, tag, kind, line, **kw):
        self.tag, self.kind, self.line = tag, kind, line
        self.__dict__.update(kw)


# ------------------------------------------------------------------ independent stream reading (spec oracle)
def ref_frames(tran, rcvmax, data):
    """what a conforming receiver may deliver from the bytes after the negotiation: list of payloads, and whether the
    stream forces a close (bad type octet / invalid or oversize length).  Independent re-implementation in Python."""
    out, off, hl = [], 0, (9 if tran == "ipc" else 8)
    while off + hl <= len(data):
        if tran == "ipc" and data[off] != 1:
            return out, True
        ln = struct.unpack(">Q", data[off + hl - 8:off + hl])[0]
        if ln > 0x0fffffffffffffff or (rcvmax > 0 and ln > rcvmax):
            return out, True
        if ln > (1 << 41):
            return out, True          # cannot be allocated
        if off + hl + ln > len(data):
            break
        out.append(data[off + hl:off + hl + ln])
        off += hl + ln
    return out, False


def wf_backtrace(h):
    if len(h) < 4 or len(h) % 4:
        return False
    words = [h[i:i + 4] for i in range(0, len(h), 4)]
    return all(w[0] < 0x80 for w in words[:-1]) and words[-1][0] >= 0x80


def spec_check(c, out):
    o = [l for l in out if not l.startswith("diag")]
    d = [l for l in out if l.startswith("diag")]
    if any(l.startswith("sigpipe") for l in o):
        return "SIGPIPE raised in the application thread"
    if any(l.startswith("fail") or l.startswith("badcmd") for l in o):
        return "harness could not set the session up: " + " | ".join(o)[:200]
    if any(l == "fds back=0" for l in o):
        return ("after the hostile peers were gone the process still held their descriptors "
                "(%s): each dropped connection must release everything it acquired%s" % (
                    "; ".join(x for x in d if "flood" in x),
                    "; and the well-behaved control connection was not served" if any(l == "ctl ok=0" for l in o) else ""))
    if any(l == "ctl ok=0" for l in o):
        return "the well-behaved control connection was not served after the hostile session"
    for l in d:
        m = re.match(r"diag cpu_ms=(\d+)", l)
        # a flood is 200 sessions in one command
        if m and int(m.group(1)) > CPU_LIMIT_MS * (4 if c.kind == "flood" else 1):
            return "watchdog: %s ms of CPU for one session (spinning?)" % m.group(1)
    if c.kind in ("wshs", "flood"):
        return None
    rx = [re.match(r"rx hdr=(\S+) body=(\S+)", l) for l in o]
    rx = [(m.group(1), unhx(m.group(2))) for m in rx if m]
    if c.kind == "sess":
        me, peer = PT[c.proto]
        st = c.stream
        good_nego = st[:8] == sp_hdr(peer)
        if not good_nego and rx:
            return "a message was delivered over a connection whose negotiation header is not the expected one"
        if good_nego:
            allowed, must_close = ref_frames(c.tran, c.rcvmax, st[8:])
            if len(rx) > len(allowed):
                return "more messages delivered than the stream contains complete, admissible frames (%d > %d)" % (len(rx), len(allowed))
            if c.rcvmax > 0:
                for h, b in rx:
                    hl = 0 if h in ("-",) else (len(unhx(h[2:])) if h.startswith("P:") else len(unhx(h)))
                    if hl + len(b) > c.rcvmax:
                        return "a message larger than RECVMAXSZ was delivered"
            if c.proto in ("xrep", "xrespondent"):
                for h, b in rx:
                    if not (h.startswith("P:") and wf_backtrace(unhx(h[2:]))):
                        return "a message with a malformed protocol header was delivered"
            if c.proto == "xreq":
                for h, b in rx:
                    if h != "-" and len(unhx(h)) > MAX_HDR:
                        return ("a reply whose backtrace does not fit the %d-byte message header was delivered to a raw REQ socket with a header of %d bytes "
                                "(the header buffer was overrun)" % (MAX_HDR, len(unhx(h))))
            # what is delivered must be admissible frames of the stream, in order, split into header and body the way
            # the protocol prescribes: nothing invented, nothing read beyond the frame
            k = 0
            for h, b in rx:
                def fits(fr):
                    if c.proto in ("xrep", "xrespondent"):
                        return h.startswith("P:") and unhx(h[2:]) + b == fr
                    if c.proto in ("rep", "respondent"):
                        return h == "-" and fr.endswith(b) and wf_backtrace(fr[:len(fr) - len(b)])
                    if c.proto == "xreq":
                        return h != "-" and unhx(h) + b == fr and wf_backtrace(unhx(h)) and len(unhx(h)) <= MAX_HDR
                    if c.proto == "pair1":
                        return len(fr) >= 4 and unhx(h) == fr[:4] and b == fr[4:]
                    return h == "-" and b == fr
                while k < len(allowed) and not fits(allowed[k]):
                    k += 1
                if k == len(allowed):
                    return "delivered a message that is not a frame of the stream split into a well-formed header and its body"
                k += 1
        e = [l for l in o if l.startswith("end ")]
        if e and "closed=0" in e[0] and len(st) >= 8 and not good_nego:
            return "a wrong negotiation header did not close the connection"
        if e and "closed=0" in e[0] and good_nego and ref_frames(c.tran, c.rcvmax, st[8:])[1]:
            return "an invalid / oversize length field did not close the connection"
    if c.kind == "wsrx":
        lim = int(c.line.split()[2])
        if lim > 0 and any(len(b) > lim for h, b in rx):
            return "WebSocket: a message larger than RECVMAXSZ was delivered"
        if hasattr(c, "over"):
            got = [b for h, b in rx]
            e = [l for l in o if l.startswith("end ")]
            if c.over:
                if got != c.before[:len(got)]:
                    return "WebSocket: a fragmented message above RECVMAXSZ (or what follows it) was delivered"
                if e and "closed=0" in e[0]:
                    return "WebSocket: a fragmented message above RECVMAXSZ did not close the connection"
            elif got != c.before + [c.big, c.after]:
                return "WebSocket: a fragmented message within RECVMAXSZ was not delivered exactly"
    if c.kind == "udp":
        # every delivery is the first us_length bytes of a DATA datagram that really carries that many, in order
        dgs = [unhx(x) for x in c.line.split()[2].split(",")]
        k = 0
        for h, b in rx:
            if len(b) > 65000:
                return "UDP: a payload above the receive maximum was delivered"
            while k < len(dgs):
                d = dgs[k]
                k += 1
                if len(d) >= 8 and d[0] == 1 and d[1] == 0:
                    ln = d[4] | (d[5] << 8)
                    if ln <= len(d) - 8 and d[8:8 + ln] == b:
                        break
            else:
                return "UDP: delivered bytes that no DATA datagram of the session carries (length field beyond the datagram?)"
    return None


# ------------------------------------------------------------------ generators
TR = [("tcp", "l"), ("tcp", "l"), ("ipc", "l"), ("sfd", "l"), ("tcp", "d"), ("ipc", "d")]
LEN_EVIL = [0x0fffffffffffffff, 0x1000000000000000, 0xffffffffffffffff, 1 << 63, 1 << 42, (1 << 60) - 1, 1 << 62]


def seed_session(rng, tran, proto, nmsg=None):
    me, peer = PT[proto]
    msgs = [valid_payload(rng, proto) for _ in range(nmsg or rng.choice([1, 2, 3]))]
    return sp_hdr(peer) + b"".join(frame(tran, b"", m) for m in msgs), msgs


def gen_sessions(rng, tier):
    q = tier == "quick"
    cases = []
    protos = list(PT.keys())

    def add(tag, tran, role, proto, rcvmax, stream, cuts=(), flags="w", nexp=4):
        cases.append(Sess(tag, tran, role, proto, rcvmax, stream, cuts, flags, ctl=True, nexp=nexp))

    # (a) negotiation: every byte of the header damaged, wrong protocol ids, every truncation
    for tran, role in [("tcp", "l"), ("ipc", "l"), ("sfd", "l"), ("tcp", "d")]:
        proto = rng.choice(MULTI)
        me, peer = PT[proto]
        good, _ = seed_session(rng, tran, proto, 1)
        for i in range(8):
            for v in ({good[i] ^ 1, good[i] ^ 0x80, 0xff, 0} - {good[i]} if not q else {good[i] ^ (1 << rng.randrange(8))}):
                b = bytearray(good)
                b[i] = v
                add("nego-byte", tran, role, proto, 0, bytes(b), cuts=[rng.randrange(1, 9)], nexp=0)
        for pid in sorted({me, peer ^ 1, 0, 0xffff, PT["pair0"][0], PT["rep"][0]} - {peer}):
            add("nego-proto", tran, role, proto, 0, sp_hdr(pid) + good[8:], nexp=0)
        for t in range(0, 8):
            for fl in (["cw", "w", "r"] if not q else [rng.choice(["cw", "w", "r"])]):
                add("nego-trunc", tran, role, proto, 0, good[:t], flags=fl, nexp=0)
    # (b) length field: invalid, oversize, RECVMAXSZ boundaries, body shorter / longer than announced
    for i in range(120 if q else 1500):
        tran, role = rng.choice(TR)
        proto = rng.choice(protos)
        me, peer = PT[proto]
        rcvmax = rng.choice([0, 16, 16, 100, DEFAULT_RCVMAX])
        pre = b"".join(frame(tran, b"", valid_payload(rng, proto)) for _ in range(rng.choice([0, 0, 1, 2])))
        kind = rng.choice(["evil", "rcvmax", "short", "long", "type"])
        tb = b"\x01" if tran == "ipc" else b""
        if kind == "evil":
            bad = tb + struct.pack(">Q", rng.choice(LEN_EVIL)) + rbytes(rng, rng.choice([0, 5, 40]))
        elif kind == "rcvmax":
            lim = rcvmax if 0 < rcvmax < 10000 else 16
            ln = lim + rng.choice([0, 1, 1, 2, 1000])
            bad = tb + struct.pack(">Q", ln) + rbytes(rng, ln if ln < 5000 else 100)
        elif kind == "short":
            ln = rng.choice([10, 100, 5000])
            bad = tb + struct.pack(">Q", ln) + rbytes(rng, rng.randrange(0, ln))
        elif kind == "long":
            p = valid_payload(rng, proto, 6)
            bad = tb + struct.pack(">Q", max(len(p) - 3, 0)) + p + rbytes(rng, 7)
        else:
            bad = bytes([rng.choice([0, 2, 0x80, 0xff])]) + struct.pack(">Q", 3) + b"abc" if tran == "ipc" else \
                struct.pack(">Q", 3) + b"abc"
        st = sp_hdr(peer) + pre + bad
        cuts = sorted(set(rng.randrange(1, len(st)) for _ in range(rng.choice([0, 1, 2, 4]))))
        fl = rng.choice(["w", "w", "cw", "r"])
        add("len-" + kind, tran, role, proto, rcvmax, st, cuts, fl, nexp=pre.count(b"") and 3)
    # (c) protocol headers: too short, no request id within TTL, header overflow, hop counts
    for i in range(100 if q else 1200):
        tran, role = rng.choice(TR)
        proto = rng.choice(["rep", "xrep", "respondent", "xrespondent", "req", "surveyor", "pair1"])
        me, peer = PT[proto]
        body = rbytes(rng, rng.choice([0, 3, 8]))
        r = rng.random()
        if proto == "pair1":
            p = rng.choice([b"", b"\0\0", struct.pack(">I", rng.choice([8, 9, 255, 256, 0x01000000, 0xffffffff])) + body])
        elif r < 0.3:
            p = rbytes(rng, rng.choice([0, 1, 2, 3]))
        elif r < 0.6:
            p = b"".join(struct.pack(">I", rng.getrandbits(31)) for _ in range(rng.choice([1, 7, 8, 9, 15, 16, 17, 40]))) + body
        elif r < 0.8:
            p = bt(rng, rng.choice([7, 8, 9, 14, 15, 16, 20])) + body
        else:
            p = bt(rng, rng.choice([0, 1]))[:rng.choice([5, 6, 7])]
        ok1 = valid_payload(rng, proto)
        ok2 = valid_payload(rng, proto)
        st = sp_hdr(peer) + frame(tran, b"", ok1) + frame(tran, b"", p) + frame(tran, b"", ok2)
        cuts = sorted(set(rng.randrange(1, len(st)) for _ in range(rng.choice([0, 1, 3]))))
        add("phdr", tran, role, proto, 0, st, cuts, "w", nexp=3)
    # (d) truncation at every byte offset of seed sessions (EOF, reset, or silence)
    nseed = 3 if q else 20
    for k in range(nseed):
        tran, role = TR[k % len(TR)]
        proto = MULTI[k % len(MULTI)]
        st, msgs = seed_session(rng, tran, proto, 2)
        offs = range(0, len(st) + 1)
        for t in (offs if not q else rng.sample(list(offs), min(14, len(st)))):
            add("trunc", tran, role, proto, rng.choice([0, 0, 64]), st[:t], [rng.randrange(1, max(2, t))] if t > 1 else [],
                rng.choice(["cw", "cw", "r", "w"]), nexp=2)
    # (e) mutated valid sessions and raw garbage
    for i in range(260 if q else 4000):
        tran, role = rng.choice(TR)
        proto = rng.choice(protos)
        st, msgs = seed_session(rng, tran, proto)
        b = bytearray(st)
        for _ in range(rng.choice([1, 1, 2, 4])):
            m = rng.random()
            k = rng.randrange(len(b)) if b else 0
            if m < 0.45 and b:
                b[k] = rng.choice([0, 1, 0x7f, 0x80, 0xff, b[k] ^ (1 << rng.randrange(8))])
            elif m < 0.65 and b:
                del b[k]
            elif m < 0.85:
                b.insert(k, rng.randrange(256))
            else:
                b = bytearray(rbytes(rng, rng.choice([1, 8, 9, 17, 40])))
        # lengths the allocator may or may not satisfy (2^31 .. 2^41) are outside what the harness can judge
        amb = False
        allowed, _ = ref_frames(tran, 0, bytes(b[8:]))
        off = 8 + sum((9 if tran == "ipc" else 8) + len(x) for x in allowed)
        hl = 9 if tran == "ipc" else 8
        if len(b) >= off + hl:
            ln = struct.unpack(">Q", bytes(b[off + hl - 8:off + hl]))[0]
            amb = (1 << 31) < ln <= (1 << 41)
        if amb:
            continue
        cuts = sorted(set(rng.randrange(1, len(b)) for _ in range(rng.choice([0, 1, 2])))) if len(b) > 1 else []
        add("mutated", tran, role, proto, rng.choice([0, 0, 64, DEFAULT_RCVMAX]), bytes(b), cuts, rng.choice(["w", "cw", "r"]), nexp=len(msgs))
    # (g) a message the protocol DROPS (more hops than the TTL allows, header buffer full) -- alone, after a good one, before a
    # good one -- and then the peer disconnects (half-close, reset) or just stays; the socket is closed inside the same
    # sanitised process, so whatever the drop path left behind is seen when the pipe is finalised
    for i in range(70 if q else 1400):
        tran, role = rng.choice(TR)
        proto = rng.choice(["rep", "rep", "xrep", "respondent", "xrespondent", "pair1", "xreq"])
        me, peer = PT[proto]
        body = rbytes(rng, rng.choice([0, 1, 8]))
        if proto == "pair1":
            dropf = struct.pack(">I", rng.choice([9, 10, 100, 255])) + body
        elif proto == "xreq":
            # one word more than the header buffer holds (and more): refused, the connection is closed; what follows is not read
            dropf = b"".join(struct.pack(">I", rng.getrandbits(31)) for _ in range(rng.choice([16, 16, 17, 30]))) + struct.pack(">I", 0x80000000 | rng.getrandbits(31)) + body
        else:
            dropf = b"".join(struct.pack(">I", rng.getrandbits(31)) for _ in range(rng.choice([9, 10, 10, 12, 15, 16, 17, 30]))) + body
        shape = rng.choice(["D", "D", "GD", "DG", "GDG", "DD", "GDDG"])
        st = sp_hdr(peer) + b"".join(frame(tran, b"", dropf if ch == "D" else valid_payload(rng, proto)) for ch in shape)
        cuts = sorted(set(rng.randrange(1, len(st)) for _ in range(rng.choice([0, 0, 1, 2]))))
        add("drop-disc", tran, role, proto, 0, st, cuts, rng.choice(["cw", "cw", "r", "w"]),
            nexp=(shape.split("D")[0].count("G") if proto == "xreq" else shape.count("G")))
    # (h) a handshake that stalls: some of the 8 bytes, then silence beyond the negotiation timeout (virtual clock, hook H4);
    # the listener must still serve the next peer
    for tran in ["tcp", "ipc", "sfd", "ws"] * (1 if q else 6):
        proto = "pair0" if tran == "ws" else rng.choice(MULTI)
        me, peer = PT[proto]
        part = (b"GET / HTTP/1.1\r\nHost: x\r\n"[:rng.choice([0, 3, 14, 27])] if tran == "ws" else sp_hdr(peer)[:rng.choice([0, 1, 3, 7])])
        cases.append(Line("stall", "stall", "stall %s %s %s %d %s %d %d" % (tran, proto, hx(part), rng.choice([10001, 11000, 60000]),
                                                                       "6b" if tran == "ws" else hx(ctl_payload(proto)), me, peer)))
    # (i) resource exhaustion: RLIMIT_NOFILE lowered to 64, more than 3x that many hostile sessions in sequence (not an SP
    # header, disconnect before 8 bytes, wrong protocol id, length 2^62, truncated frame; for ws: not HTTP, a torn request);
    # afterwards the descriptor count is back at its baseline and a well-behaved peer is served under the same limit
    for rep_i in range(1 if q else 4):
        for tran in ["tcp", "ipc", "sfd", "ws"]:
            proto = "pair0" if tran == "ws" else rng.choice(["pull", "sub", "bus", "xrep"])
            me, peer = PT[proto]
            kinds = "hs" if tran == "ws" else "".join(rng.sample("bspot", 5)) if rep_i else "bspot"
            cases.append(Line("flood", "flood", "flood %s %s 64 %d %s %s %d %d" % (
                tran, proto, 200 if tran != "sfd" else 200, kinds, "6b" if tran == "ws" else hx(ctl_payload(proto)), me, peer)))
    # (f) single-pipe protocols: the listener must take a new peer after the hostile one was dropped
    for i in range(10 if q else 200):
        tran, role = rng.choice(TR[:4])
        proto = rng.choice(["pair0", "pair1"])
        me, peer = PT[proto]
        st = rng.choice([sp_hdr(peer ^ 1), sp_hdr(peer) + (b"\x01" if tran == "ipc" else b"") + struct.pack(">Q", 1 << 62),
                         sp_hdr(peer)[:5], rbytes(rng, 12)])
        add("single", tran, role, proto, 0, st, [], "cw", nexp=0)
    return cases


def gen_udp(rng, tier):
    q = tier == "quick"
    cases = []
    me, peer = PT["pair0"]

    def dg(op, ty, p0, p1, payload=b"", ver=1):
        return bytes([ver, op]) + struct.pack("<HHH", ty, p0, p1) + payload

    creq = dg(1, peer, 65000, 5)
    for i in range(80 if q else 800):
        ds, nexp = [], 0
        if rng.random() < 0.85:
            ds.append(creq if rng.random() < 0.8 else dg(1, peer, rng.choice([0, 1, 100]), rng.choice([1, 2, 9, 600])))
            have = True
        else:
            have = False
        for _ in range(rng.choice([1, 2, 4])):
            r = rng.random()
            p = rbytes(rng, rng.choice([0, 1, 5, 100, 1024, 1025, 3000]))
            if r < 0.45:
                ds.append(dg(0, peer, len(p), 0, p + rbytes(rng, rng.choice([0, 0, 3]))))     # valid (trailing bytes are cut off)
                nexp += 1 if have else 0
            elif r < 0.6:
                ds.append(dg(rng.choice([0, 1, 2, 3]), peer, 0, 0, ver=rng.choice([0, 2, 255])))  # wrong version: ignored
            elif r < 0.7:
                ds.append(rbytes(rng, rng.randrange(0, 8)))                                      # shorter than a header
            elif r < 0.8:
                ds.append(dg(rng.choice([4, 5, 9, 0x7f, 0xff]), peer, 0, 0, p))                   # unknown opcode
            elif r < 0.9 and have:
                ds.append(dg(1, peer, 65000, rng.choice([1, 3, 5, 7])))                          # refresh
            else:
                ds.append(dg(2, peer, 100, 5))                                                   # unsolicited CACK
        # the datagram that ends the session (anything that closes the pipe comes last)
        r = rng.random()
        if r < 0.3:
            p = rbytes(rng, 10)
            ds.append(dg(0, peer, len(p) + rng.choice([1, 5, 60000]), 0, p))                    # length > datagram
        elif r < 0.4:
            ds.append(dg(1, peer, 65000, 0))                                                    # refresh 0
        elif r < 0.5 and have:
            ds.append(dg(1, peer ^ 1, 65000, 5))                                                # type changed
        elif r < 0.6:
            ds.append(dg(3, peer, 0, 0))                                                        # DISC
        elif r < 0.7 and have:
            big = rbytes(rng, 65100)
            ds.append(dg(0, peer, 65001 + rng.randrange(0, 90), 0, big))                        # length > receive maximum
        cases.append(Line("udp", "udp", "udp pair0 %s %d %d %d" % (",".join(d.hex() if d else "00" for d in ds), nexp, me, peer)))
    return cases


def gen_ws(rng, tier):
    q = tier == "quick"
    cases = []
    good = (b"GET / HTTP/1.1\r\nHost: x\r\nUpgrade: websocket\r\nConnection: Upgrade\r\n"
            b"Sec-WebSocket-Key: dGhlIHNhbXBsZSBub25jZQ==\r\nSec-WebSocket-Protocol: pair.sp.nanomsg.org\r\n"
            b"Sec-WebSocket-Version: 13\r\n\r\n")
    # the HTTP upgrade request: truncated at every offset, mutated, wrong sub-protocol, garbage
    offs = list(range(0, len(good)))
    for t in (offs if not q else rng.sample(offs, 12)):
        cases.append(Line("wshs-trunc", "wshs", "wshs %s - %s" % (hx(good[:t]), rng.choice(["c", "-"]))))
    for i in range(25 if q else 800):
        b = bytearray(good)
        r = rng.random()
        if r < 0.2:
            b = bytearray(good.replace(b"pair.sp", rng.choice([b"req.sp", b"x", b""])))
        elif r < 0.3:
            b = bytearray(good.replace(b"Sec-WebSocket-Key: dGhlIHNhbXBsZSBub25jZQ==\r\n", rng.choice([b"", b"Sec-WebSocket-Key: !!\r\n"])))
        elif r < 0.4:
            b = bytearray(good.replace(b"13", rng.choice([b"12", b"", b"99999999999999999999"])))
        elif r < 0.5:
            b = bytearray(rbytes(rng, rng.choice([1, 10, 200, 9000])))
        elif r < 0.6:
            b = bytearray(good[:-2] + b"X-Pad: " + b"a" * rng.choice([100, 8000, 20000]) + b"\r\n\r\n")
        else:
            for _ in range(rng.choice([1, 2, 5])):
                k = rng.randrange(len(b))
                m = rng.random()
                if m < 0.5:
                    b[k] = rng.choice([0, 9, 10, 13, 32, 58, 127, 128, 255])
                elif m < 0.75:
                    del b[k]
                else:
                    b.insert(k, rng.choice([13, 10, 58, 32, 0]))
        cuts = sorted(set(rng.randrange(1, len(b)) for _ in range(rng.choice([0, 1, 3])))) if len(b) > 1 else []
        cases.append(Line("wshs-mut", "wshs", "wshs %s %s %s" % (hx(bytes(b)), C1.cuts_str(cuts), rng.choice(["c", "-"]))))
    # after a good upgrade: mutated frame sequences (C16's generator), message limit on / off
    for i in range(60 if q else 1500):
        role = rng.choice("ld")
        frames = C16.gen_ws_stream(rng, "s" if role == "l" else "c")
        rcvmax = 0
        if rng.random() < 0.7:
            kind = rng.choice([k for k in C16.WS_MUT if k not in ("text", "maxframe", "recvmax")])
            frames, _ = C16.mutate_ws(rng, "s" if role == "l" else "c", frames, kind)
        elif rng.random() < 0.5:
            rcvmax = rng.choice([5, 10, 100])
        s = b"".join(frames)
        cuts = sorted(set(rng.randrange(1, len(s)) for _ in range(rng.choice([0, 1, 2])))) if len(s) > 1 else []
        cases.append(Line("ws-frames", "wsrx", "wsrx %s %d %s %s 4 w" % (role, rcvmax, hx(s), C1.cuts_str(cuts))))
    # RECVMAXSZ bounds the SUM of a message's fragments: 2..5 fragments, each below the limit, the sum above / exactly at /
    # below it, control frames in between; limit small / 0 (none) / default
    for i in range(45 if q else 900):
        role = rng.choice("lld")
        masked = role == "l"
        lim = rng.choice([100, 100, 64, 10, 0, DEFAULT_RCVMAX])
        base = lim if 0 < lim < 10000 else 100
        nfr = rng.choice([2, 2, 3, 4, 5])
        total = base + rng.choice([-1, 0, 0, 1, 1, 2, 20, base // 2])
        # nfr parts, each <= base (and < base when possible), summing to total
        parts, left = [], total
        for k in range(nfr - 1):
            hi = min(base - 1 if base > 1 else 1, left)
            x = rng.randrange(0, hi + 1)
            parts.append(x)
            left -= x
        if left > base:
            # spread the rest so that no single fragment exceeds the limit
            parts = [total // nfr] * (nfr - 1)
            left = total - sum(parts)
        parts.append(left)
        if any(p > base for p in parts):
            continue
        data = rbytes(rng, total)
        out, off = b"", 0
        pre = [rbytes(rng, rng.choice([0, 3]))] if rng.random() < 0.5 else []
        for m in pre:
            out += C16.ws_frame(2, True, m, masked, rbytes(rng, 4))
        for k, ln in enumerate(parts):
            out += C16.ws_frame(2 if k == 0 else 0, k == nfr - 1, data[off:off + ln], masked, rbytes(rng, 4))
            off += ln
            if k < nfr - 1 and rng.random() < 0.4:
                out += C16.ws_frame(rng.choice([9, 10]), True, rbytes(rng, rng.choice([0, 5, 125])), masked, rbytes(rng, 4))
        tail = rbytes(rng, 2)
        out += C16.ws_frame(2, True, tail, masked, rbytes(rng, 4))
        cuts = sorted(set(rng.randrange(1, len(out)) for _ in range(rng.choice([0, 1, 2]))))
        over = 0 < lim < total
        cases.append(Line("ws-fragsum", "wsrx", "wsrx %s %d %s %s %d w" % (role, lim, hx(out), C1.cuts_str(cuts), len(pre) + 2),
                          over=over, before=pre, big=data, after=tail))
    # truncation of a frame stream at every offset
    s = C16.ws_frame(2, False, b"He", True, b"\1\2\3\4") + C16.ws_frame(9, True, b"p", True, b"\5\6\7\x08") + \
        C16.ws_frame(0, True, b"y!", True, b"\x09\x0a\x0b\x0c") + C16.ws_frame(2, True, b"z", True, b"\1\1\1\1")
    offs = list(range(0, len(s) + 1))
    for t in (offs if not q else rng.sample(offs, 10)):
        cases.append(Line("ws-trunc", "wsrx", "wsrx l 0 %s - 2 cw" % hx(s[:t])))
    return cases


def agree(c, io, mo):
    """model <-> implementation.  A connection the peer RESETS discards whatever nng had not read yet (TCP drops its
    receive queue on RST): there, what is delivered may be any prefix of the model's deliveries -- real time, never an alarm"""
    io = C1.strip_diag(io)
    if io == mo:
        return True
    if c.kind == "sess" and "r" in getattr(c, "flags", ""):
        irx = [l for l in io if l.startswith("rx ")]
        mrx = [l for l in mo if l.startswith("rx ")]
        irest = [re.sub(r"^end n=\d+", "end n=*", l) for l in io if not l.startswith("rx ")]
        mrest = [re.sub(r"^end n=\d+", "end n=*", l) for l in mo if not l.startswith("rx ")]
        return irx == mrx[:len(irx)] and irest == mrest
    return False


def run(tier, seed, replay=None):
    rep = Report("C11", tier, seed, level="proof-partial")
    t_start = time.time()

    def lap(what):
        if os.environ.get("NNGV_TIMING"):
            print("  [%6.1fs] %s" % (time.time() - t_start, what))
    for _attempt in range(3):
        ok, msg = gen_consts("c11")
        ok1, msg1 = gen_consts("c01")
        ok, msg = ok and ok1, "; ".join(x for x in (msg, msg1) if x)
        cb = coq_build("Properties_C11")
        rc, o, e = sh([sys.executable, os.path.join(VERIF, "tools", "gen_consts.py")], timeout=120)
        if "Consts.v updated" not in o:
            break
    gate = coq_gate()
    rep.proof_cov(cb, "make -C coq Props/Properties_C11.vo && coqc Props/Properties_C11.v (Print Assumptions) ; grep gate")
    proof_ok = ok and cb["ok"] and not gate
    lap("coq")
    model_build("c01")
    bdir, err = nng_build("asan")
    if bdir is None:
        p = rep.replay_file("build_failed.txt", err)
        rep.violation(p, "nng does not build", nofail=True)
        return rep.finish()
    impl, err = wb_build(bdir, "wb_c01.c")
    if impl is None:
        p = rep.replay_file("build_failed.txt", err)
        rep.violation(p, "driver does not build against the current tree", nofail=True)
        return rep.finish()
    model = model_bin("modeld_c01")
    lap("builds")
    PT.clear()
    PT.update(proto_table())
    if any(None in v for v in PT.values()):
        p = rep.replay_file("proto_ids.txt", repr(PT))
        rep.violation(p, "protocol numbers no longer found in the source", nofail=True)
        return rep.finish()
    rng = random.Random(seed)
    q = tier == "quick"
    if replay:
        cases = []
        for l in open(replay):
            l = l.strip()
            if l and not l.startswith("#"):
                t = l.split()
                if t[0] == "sess":
                    c = Line("replay", "sess", l, tran=t[1], role=t[2], proto=t[3], rcvmax=int(t[4]), stream=unhx(t[5]), flags=t[7])
                else:
                    c = Line("replay", t[0], l)
                cases.append(c)
    else:
        cases = []
        for c in load_corpus("C11"):
            if c:
                t = c[0].split()
                cases.append(Line("corpus", "sess", c[0], tran=t[1], role=t[2], proto=t[3], rcvmax=int(t[4]), stream=unhx(t[5]), flags=t[7])
                             if t[0] == "sess" else Line("corpus", t[0], c[0]))
        cases += gen_sessions(rng, tier)
        cases += gen_udp(rng, tier)
        cases += gen_ws(rng, tier)
    rng.shuffle(cases)
    lines = [c.line for c in cases]
    gap = "1200" if q else "2500"
    iout, crashes = C1.run_parallel(impl, lines, 6, 900 if q else 3400, args=(gap,))
    lap("impl run")
    mout, mcr = C1.run_parallel(model, lines, 6, 900 if q else 3400)
    lap("model run")
    for idx, rc, errtxt in mcr:
        p = rep.replay_file("model_crash_%d.case" % idx, "# rc=%s %s\n%s\n" % (rc, errtxt[-500:].replace("\n", " "), lines[idx]))
        rep.violation(p, "model driver failed (rc=%s) near case: %s" % (rc, lines[idx][:100]), nofail=True)
    hist, distinct, classes, diverged = {}, set(), set(), []
    cpu_max = 0

    def viol(name, idx, text, io, nofail=False):
        c = cases[idx]
        p = rep.replay_file("%s_%d.case" % (name, idx), "# %s\n# impl : %s\n# model: %s\n%s\n" % (
            text, " | ".join(io)[:800], " | ".join(mout[idx])[:800], c.line))
        rep.violation(p, text + " [" + c.tag + ": " + c.line[:120] + ("..." if len(c.line) > 120 else "") + "]", nofail=nofail)

    leak_reports = []
    for idx, rc, errtxt in crashes:
        if rc == 99 and ("LeakSanitizer" in errtxt or "byte(s) leaked in" in errtxt) and \
                "ERROR: AddressSanitizer" not in errtxt and "runtime error" not in errtxt:
            # memory not released at nng_fini: outside C11's statement (crash / corruption / hang / limits); recorded for C03
            fr = re.findall(r"#\d+ 0x[0-9a-f]+ in (\S+) /\S*?/src/(\S+)", errtxt)
            leak_reports.append(" <- ".join("%s(%s)" % (a, b) for a, b in fr[:4]))
            rep.replay_file("leak_%d.txt" % idx, errtxt)
            continue
        what = "watchdog: the driver did not finish in time (hang)" if rc == -9 else \
            "implementation crashed / sanitizer report (rc=%s: %s)" % (rc, san_summary(errtxt))
        p = rep.replay_file("crash_%d.case" % idx, "# rc=%s\n# %s\n%s\n" % (rc, errtxt.replace("\n", "\n# "), lines[idx]))
        rep.violation(p, "C11 violated: %s near case: %s" % (what, lines[idx][:120]))
        # the sessions dealt to that process after the crash were not run: run them now, one process each bucket
    lost = [i for i, o in enumerate(iout) if not o and not any(i == x[0] for x in crashes)]
    if lost and crashes:
        o2, cr2 = C1.run_parallel(impl, [lines[i] for i in lost], 6, 900 if q else 3400, args=(gap,))
        for j, i in enumerate(lost):
            iout[i] = o2[j]

    def rerun(idx, g):
        per, cr = C1.run_script(impl, [lines[idx]], 120, args=(g,))
        return per[0], cr

    for idx, c in enumerate(cases):
        io = iout[idx]
        if not io:
            continue
        hist[c.tag] = hist.get(c.tag, 0) + 1
        for l in io:
            m = re.match(r"diag cpu_ms=(\d+)", l)
            if m:
                cpu_max = max(cpu_max, int(m.group(1)))
        bad = spec_check(c, io)
        same = agree(c, io, mout[idx])
        if bad or not same:
            # real-time effects must not raise an alarm: repeat the session alone with longer pauses
            for g in ("4000", "12000"):
                io2, cr2 = rerun(idx, g)
                if cr2:
                    break
                bad2 = spec_check(c, io2)
                same2 = agree(c, io2, mout[idx])
                if not bad2 and same2:
                    bad, same, io = None, True, io2
                    rep.cov["retried_ok"] = rep.cov.get("retried_ok", 0) + 1
                    break
                io, bad, same = io2, bad2, same2
        if bad:
            viol("spec", idx, "C11 violated: " + bad, io)
            continue
        if not same:
            diverged.append((idx, io))
            continue
        distinct.add(hashlib.sha1(c.line.encode()).hexdigest())
        e = [l for l in io if l.startswith("end ")]
        classes.add((c.tag, c.kind, e[0] if e else ""))
    lap("compare")
    if diverged and not rep.violations:
        idx, io = diverged[0]
        viol("diverge", idx, "correspondence model <-> code broken on %d sessions (the spec oracle found no violation); first" % len(diverged),
             io, nofail=True)
    if not proof_ok and not rep.violations:
        proof_broken_report(rep, cb, "C11 theorems do not check (%s)" % ("; ".join(gate[:3]) if gate else msg if not ok else "see log"))
    rep.cov.update({
        "evaluations": len(cases), "distinct_nontrivial": len(distinct),
        "rule": "one evaluation = one hostile session (byte stream + cuts + how it ends + RECVMAXSZ) against a real endpoint of the "
                "ASan/UBSan build, followed by a well-behaved control connection, also run on the extracted models; distinct = "
                "distinct sessions on which model and code agree and the spec oracle holds",
        "samples": [lines[0][:200], lines[len(lines) // 2][:200], lines[-1][:200]],
        "case_histogram": hist, "outcome_classes": len(classes), "model_impl_divergences": len(diverged),
        "max_cpu_ms_per_session": cpu_max, "cpu_limit_ms": CPU_LIMIT_MS, "leak_reports_at_exit": leak_reports,
        "protocols": sorted(PT.keys()), "transports": ["tcp (listen, dial)", "ipc (listen, dial)", "socket://", "ws + HTTP upgrade", "udp"],
    })
    rep.assumptions += [
        "PARTIAL: 'does not crash / corrupt memory / hang' is observed on the generated sessions (ASan, UBSan, CPU and wall watchdog), "
        "proved only as totality and bounds of the modelled decoders",
        "length fields between 2^31 and 2^41 (allocations the system may or may not grant) are not generated",
        "the 100 ms pause of the listener after a failed accept is tolerated by retrying the control connection; it is not modelled",
        "HTTP upgrade requests: the handshake validation of ws_handler is not modelled; mutated requests are judged by 'no crash, "
        "nothing delivered, the next well-formed connection is served'",
        "UDP: sessions end at the first datagram that closes the pipe (what follows races with the reaper)",
    ]
    return rep.finish()
