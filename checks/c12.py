# C12 -- REQ keeps retrying until answered; no hang when retry is disabled (DESIGN 5/C12)
# Shares the model driver `c04`, the REQ generator and the REQ oracle with checks/c04.py.
import random
from protolib import *
import c04

KNOWN_TEXT = c04.KNOWN_TEXT
ADV = [2000, 2500, 3000, 4000, 6500, 7000, 10000, 30000, 61500, 65000]


def gen_fault_case(rng):
    """fault scripts: connection loss at the four cut points (before the request is written, after, after the replier read it,
    after the reply was written), replier restarts, resend time {infinite, 5 s, 60 s}, ticks, 1-3 contexts.  Virtual time
    never comes closer than 1 s to a deadline (every deadline is an earlier instant plus tick / 5 s / 60 s)."""
    L = ["open s0 req0"]
    resend = rng.choice([-1, -1, 5000, 5000, 60000])
    L.append("setopt s0 req:resend-time ms %d" % resend)
    tick = 1000
    if rng.random() < 0.3:
        tick = 3000; L.append("setopt s0 req:resend-tick ms %d" % tick)
    consts = {tick, 5000, 60000}
    tgts = ["s0"]
    for k in range(rng.choice([0, 0, 1, 2])):
        L.append("ctx c%d s0" % k); tgts.append("c%d" % k)
        if rng.random() < 0.3:
            L.append("setopt c%d req:resend-time ms %d" % (k, rng.choice([-1, 5000, 60000])))
    st = {"now": 0, "instants": [0], "npipes": 0, "naio": 0, "nmsg": 0, "nreq": 0}

    def conn():
        L.append("conn s0 49"); st["npipes"] += 1

    def aio():
        st["naio"] += 1; return "a%d" % (st["naio"] - 1)

    def body(tag):
        st["nmsg"] += 1; return "%s%04x" % (tag, st["nmsg"])

    def advance():
        for _ in range(10):
            d = rng.choice(ADV)
            if all(abs((st["now"] + d) - (t0 + c)) >= 1000 for t0 in st["instants"] for c in consts):
                st["now"] += d; st["instants"].append(st["now"]); L.append("advance %d" % d)
                return

    for _ in range(rng.choice([0, 1, 1, 2])):
        conn()
    for _ in range(rng.randrange(1, 5)):
        t = rng.choice(tgts)
        L.append("send %s %s - %s" % (t, aio(), body("aa"))); st["nreq"] += 1 if st["npipes"] else 0
        early = rng.random() < 0.6
        if early:
            L.append("recv %s %s" % (t, aio()))
        for _ in range(rng.randrange(1, 6)):
            f = rng.random()
            if f < 0.18 and st["npipes"]:
                L.append("drop p%d" % rng.randrange(st["npipes"]))                         # before / after the request is written
            elif f < 0.40 and st["npipes"]:
                L.append("sent p%d" % rng.randrange(st["npipes"]))
            elif f < 0.52 and st["npipes"]:
                p = rng.randrange(st["npipes"])
                L.append("sent p%d" % p); L.append("drop p%d" % p)                        # after the replier read it
            elif f < 0.66 and st["npipes"] and st["nreq"]:
                p = rng.randrange(st["npipes"])
                L.append("sent p%d" % p)
                L.append("inject p%d [R%d]%s" % (p, max(0, st["nreq"] - 1 - rng.choice([0, 0, 0, 1])), body("bb")))
                if rng.random() < 0.4:
                    L.append("drop p%d" % p)                                               # after the reply was written
            elif f < 0.80 and st["npipes"] < 6:
                conn()                                                                     # replier (re)start
            elif f < 0.95:
                advance()
            else:
                L.append("poll")
        if not early:
            L.append("recvnb %s" % t if rng.random() < 0.5 else "recv %s %s" % (t, aio()))
    # drain: a fresh replier, everything written, ticks
    conn()
    for _ in range(2):
        for p in range(st["npipes"]):
            L.append("sent p%d" % p)
        advance()
    for t in tgts:
        L.append("recvnb %s" % t)
    return L


def gen_chain_loss_case(rng):
    """directed: one request at a time, resending enabled, and its connection lost again and again -- while other pipes are ready
    (immediate retransmission on the next one), after the transport took the request or before, with a new replier connecting in
    between or only afterwards; finally the reply on the connection the request was last written to.  The generator keeps the
    ready list, so every drop hits the pipe that carries the request."""
    L = ["open s0 req0", "setopt s0 req:resend-time ms %d" % rng.choice([5000, 60000])]
    tgts = ["s0"]
    for k in range(rng.choice([0, 1, 2])):
        L.append("ctx c%d s0" % k); tgts.append("c%d" % k)
    st = {"np": 0, "naio": 0, "nmsg": 0, "nreq": 0}
    ready = []

    def conn():
        L.append("conn s0 49"); ready.append(st["np"]); st["np"] += 1

    def aio():
        st["naio"] += 1; return "a%d" % (st["naio"] - 1)

    def body(tag):
        st["nmsg"] += 1; return "%s%04x" % (tag, st["nmsg"])

    for _ in range(rng.choice([1, 2, 3])):
        conn()
    for _ in range(rng.choice([1, 2, 2, 3])):
        if not ready:
            conn()
        t = rng.choice(tgts)
        L.append("send %s %s - %s" % (t, aio(), body("aa"))); rid = st["nreq"]; st["nreq"] += 1
        cur = ready.pop(0)              # the pipe the request is on (busy)
        taken = False
        early = rng.random() < 0.5
        if early:
            L.append("recv %s %s" % (t, aio()))
        for _ in range(rng.choice([1, 2, 2, 3, 4])):
            if rng.random() < 0.4 and not taken:
                L.append("sent p%d" % cur); taken = True; ready.append(cur)      # the replier has read it
            if rng.random() < 0.3 and st["np"] < 7:
                conn()
            L.append("drop p%d" % cur)
            if cur in ready:
                ready.remove(cur)
            if not ready:
                if rng.random() < 0.5:
                    L.append("poll")
                conn()
            cur = ready.pop(0); taken = False                                    # retransmitted at once
        if rng.random() < 0.7:
            L.append("sent p%d" % cur); ready.append(cur); taken = True
        L.append("inject p%d [R%d]%s" % (cur, rid, body("bb")))
        if not early:
            L.append("recvnb %s" % t if rng.random() < 0.5 else "recv %s %s" % (t, aio()))
        if not taken:
            L.append("sent p%d" % cur); ready.append(cur)
    for t in tgts:
        L.append("recvnb %s" % t)
    return L


STATS = {}


def oracle(case, obs, raw):
    bad = c04.oracle_req(case, obs, raw, c12=True, stats=STATS)
    if bad:
        return bad
    # a request whose connection is gone does not wait while a pipe is ready (resending enabled)
    resend, sock_resend = {}, 60000
    cur = {}                # target -> dict(body, pipe, alive)
    aio_of = {}             # aio -> target
    pend = {}               # target -> pending recv aio
    tx_seen = {}            # pipe -> tx string last observed
    vnow, tick = 0, 1000    # virtual clock of the script; NNG_OPT_REQ_RESENDTICK (default 1 s)
    for k, line in enumerate(case):
        t = line.split()
        o = obs[k]
        op = t[0]
        if op == "advance":
            vnow += int(t[1])
        if op == "setopt" and o["rv"] == 0 and t[2] == "req:resend-tick":
            tick = int(t[4])
        if op == "ctx" and o["rv"] == 0:
            resend[t[1]] = sock_resend
        elif op == "setopt" and o["rv"] == 0 and t[2] == "req:resend-time":
            if t[1] == "s0":
                sock_resend = int(t[4])
            resend[t[1]] = int(t[4])
        elif op in ("send", "sendnb"):
            tg = t[1]
            body = t[4] if op == "send" else t[3]
            if op == "send":
                aio_of[int(t[2][1:])] = tg
            ok = o["rv"] == 0 and not (op == "send" and any(a == int(t[2][1:]) and rv != 0 for a, rv, e in o["done"]))
            cur[tg] = {"body": body, "pipe": None, "resend": resend.get(tg, sock_resend)} if ok else None
        elif op == "recv" and o["rv"] == 0:
            aio_of[int(t[2][1:])] = t[1]
            if not any(a == int(t[2][1:]) for a, rv, e in o["done"]):
                pend[t[1]] = int(t[2][1:])
        elif op == "drop" and o["rv"] == 0:
            # resending disabled: losing the connection the request went out on fails the pending receive with ECONNRESET, now
            for tg, rec in cur.items():
                if rec is not None and rec["resend"] < 0 and rec["pipe"] == int(t[1][1:]) and pend.get(tg) is not None:
                    if not any(a == pend[tg] and rv == 19 for a, rv, e in o["done"]):
                        return (k, "resending disabled and the connection of request %s lost: receive a%d of %s did not fail with NNG_ECONNRESET (%s)"
                                % (rec["body"], pend[tg], tg, [(a, rv) for a, rv, e in o["done"]]))
                    STATS["noretry_reset_checked"] = STATS.get("noretry_reset_checked", 0) + 1
        elif op in ("ctxclose", "close"):
            for tg in list(cur):
                if op == "close" or tg == t[1]:
                    cur[tg] = None
        for a, rv, e in o["done"]:
            for tg in list(pend):
                if pend[tg] == a:
                    pend[tg] = None
        # completions end a request (reply, error, cancel)
        for a, rv, e in o["done"]:
            tg = aio_of.get(a)
            if tg is not None and cur.get(tg) is not None and (e is None or e == "kept" or rv == 0) and not (rv == 0 and e is None):
                cur[tg] = None
        if op == "recvnb" and o["rv"] in (0, 19):
            cur[t[1]] = None
        if op == "cancel":
            tg = aio_of.get(int(t[1][1:]))
            if tg is not None:
                cur[tg] = None      # whatever it was, the state machine may have been aborted
        if op == "sent" and o["rv"] == 0:
            # the transport has taken what this pipe was sending: whatever it shows now - even the same request
            # again (a retransmission) - is a new hand-over
            tx_seen.pop(int(t[1][1:]), None)
        for i, p in o["pipes"].items():
            tx = p.get("tx")
            if tx != tx_seen.get(i):
                # a new hand-over to the transport: the request is now "last written" to this pipe (a copy still
                # pending on an older pipe does not count)
                tx_seen[i] = tx
                if tx:
                    b = tx.split("/")[1]
                    for rec in cur.values():
                        if rec is not None and rec["body"] == b:
                            rec["pipe"] = i; rec["rid"] = tx.split("/")[0]; rec["t_tx"] = vnow
        if op == "inject" and o["rv"] == 0:
            # a reply carrying the request's id answers it (delivered or stashed): no longer outstanding
            for tg, rec in cur.items():
                if rec is not None and rec.get("rid") and (o.get("inj") or t[2]).startswith(rec["rid"]):
                    cur[tg] = None
        ready = [i for i, p in o["pipes"].items() if p.get("st") == "o" and p.get("nt") == 0]
        if op == "advance" and ready and tick > 0:
            # the resend time has elapsed without a reply, a tick has passed since, a pipe is idle: the request must
            # have been put on the wire again by now
            for tg, rec in cur.items():
                if rec is not None and rec["resend"] > 0 and rec.get("t_tx") is not None and vnow - rec["t_tx"] >= rec["resend"] + 2 * tick:
                    return (k, "request %s of %s was last put on the wire at %d ms, its resend time (%d ms) and two ticks have passed (now %d ms), p%d is idle, and it was not retransmitted"
                            % (rec["body"], tg, rec["t_tx"], rec["resend"], vnow, ready[0]))
        if ready:
            for tg, rec in cur.items():
                if rec is None or rec["resend"] < 0:
                    continue
                if rec["pipe"] is None or o["pipes"].get(rec["pipe"], {}).get("st") != "o":
                    return (k, "request %s of %s is not on any live connection although p%d is ready and resending is enabled (%d ms)"
                            % (rec["body"], tg, ready[0], rec["resend"]))
                STATS["requeue_checked"] = STATS.get("requeue_checked", 0) + 1
    return None


def run(tier, seed, replay=None):
    rep = Report("C12", tier, seed)
    if os.environ.get("C04_ASSUME_KNOWN"):
        for key, text in KNOWN_TEXT.items():
            rep.known.setdefault(key, text)
    proof_ok, cb, bdir, why = std_prelude(rep, "C12", "Properties_C12", "c04", drivers=("c04",))
    if bdir is None:
        return rep.finish()
    flags = c04.fixed_flags()
    full = bool(flags.get("REQ_CLONE") and flags.get("REQ_CANCEL_SEND"))
    rng = random.Random(seed)
    n = 220 if tier == "quick" else 5000
    STATS.clear()
    if replay:
        cases = [[l.strip() for l in open(replay) if l.strip() and not l.startswith("#")]]
    else:
        cases = load_corpus("C12")
        # the no-retry / stashed-reply reproducer and the retry-timer one (ordinary cases on a repaired tree)
        if flags.get("REQ_STASH"):
            cases.append(c04.FIXED_CASES[4])
        if flags.get("REQ_CLONE"):
            cases.append(c04.FIXED_CASES[2])
        rng2 = random.Random(seed + 7919)
        cases += [gen_chain_loss_case(rng2) for _ in range(24 if tier == "quick" else 500)]
        for i in range(n):
            cases.append(gen_fault_case(rng) if i % 3 else c04.gen_req_case(rng, timed=True, allow_opt_change=full, allow_cancel_send=full))
    proto_run(rep, "C12", tier, bdir, cases, oracle, model_driver="c04", label="REQ retry")
    if not flags.get("REQ_STASH") and not replay:
        impl, err = wb_build(bdir, "wb_proto.c")
        o, crash = run_cases(impl, [c04.FIXED_CASES[4]], timeout=60)
        po = [parse_line(x) for x in o[0]]
        if crash is None and len(po) > 7 and po[7] and po[7]["rv"] == 19:
            p = rep.replay_file("known_req-noretry-stashed-reply-lost.case", "# %s\n" % KNOWN_TEXT["req-noretry-stashed-reply-lost"] + "\n".join(c04.FIXED_CASES[4]) + "\n")
            rep.violation(p, "REQ: " + KNOWN_TEXT["req-noretry-stashed-reply-lost"], key="req-noretry-stashed-reply-lost")
    if not proof_ok and not rep.violations:
        proof_broken_report(rep, cb, "C12 theorems do not check (%s)" % why)
    rep.cov["source_repairs_detected"] = flags
    rep.cov["spec_clauses_exercised"] = dict(sorted(STATS.items()))
    rep.cov["rule"] = ("fault scripts on a cooked REQ socket over the deterministic transport with the virtual clock (hook H4), same script on the library and on the "
                       "extracted ReqModel: 1-4 requests on the socket and 0-2 contexts, resend time infinite / 5 s / 60 s (per context too), tick 1 s / 3 s, "
                       "connection loss before the request is written / after / after the replier took it / after the reply was written, replier restarts "
                       "(new pipes), replies with the current or a stale id, `advance` steps that stay >= 1 s away from every deadline, a final drain; "
                       "one third random timed REQ histories of checks/c04.py; directed chain-loss scripts (the connection carrying the request lost repeatedly "
                       "while other pipes are ready, before / after the transport took it).  Oracle on the implementation's observations: C04's matching clauses, "
                       "at most one transmission without resending, ECONNRESET only without resending, same id on every retransmission, no retransmission of "
                       "a superseded request, and no outstanding request left off the wire while a pipe is ready")
    return rep.finish()
