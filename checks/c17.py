# C17 -- nng_msg behaves as two byte strings (DESIGN 5/C17)
import random, re
from vlib import *

SIZES = [0, 1, 2, 7, 8, 9, 15, 16, 17, 24, 31, 32, 33, 40, 48, 63, 64, 65, 100, 127, 128, 129, 255, 256,
         1000, 1023, 1024, 1025, 2047, 2048, 2049, 4096]
SMALL = [0, 1, 2, 3, 4, 7, 8, 9, 16, 24, 31, 32, 33, 40]


def rhex(rng, n):
    return "".join("%02x" % rng.randrange(256) for _ in range(n)) if n else "-"


def gen_case(rng):
    lines = []
    nslots = rng.choice([1, 1, 2, 3])
    live = []
    for s in range(nslots):
        lines.append("alloc %d %d" % (s, rng.choice(SIZES if rng.random() < 0.7 else SMALL)))
        live.append(s)
    nops = rng.randrange(1, 60)
    for _ in range(nops):
        s = rng.choice(live)
        r = rng.random()
        if r < 0.16:
            lines.append("insert %d %s" % (s, rhex(rng, rng.choice(SMALL + [48, 64, 100]))))
        elif r < 0.28:
            lines.append("append %d %s" % (s, rhex(rng, rng.choice(SMALL + [48, 64, 100, 300]))))
        elif r < 0.38:
            lines.append("trim %d %d" % (s, rng.choice(SMALL + [1000])))
        elif r < 0.46:
            lines.append("chop %d %d" % (s, rng.choice(SMALL + [1000])))
        elif r < 0.52:
            lines.append("%s %d %s" % (rng.choice(["happend", "hinsert"]), s, rhex(rng, rng.choice([0, 1, 4, 8, 12, 16, 31, 32, 33, 60, 64, 65]))))
        elif r < 0.57:
            lines.append("%s %d %d" % (rng.choice(["htrim", "hchop"]), s, rng.choice([0, 1, 4, 8, 16, 63, 64, 65])))
        elif r < 0.63:
            lines.append("realloc %d %d" % (s, rng.choice(SIZES)))
        elif r < 0.67:
            lines.append("reserve %d %d" % (s, rng.choice(SIZES)))
        elif r < 0.69:
            lines.append("%s %d" % (rng.choice(["clear", "hclear"]), s))
        elif r < 0.79:
            k = rng.choice([2, 4, 8])
            v = rng.choice([0, 1, 0xff, 0x100, 0xffff, 0x10000, 0xdeadbeef, 0xffffffff, 0x0123456789abcdef, 0xffffffffffffffff, rng.getrandbits(64)])
            v &= (1 << (8 * k)) - 1
            lines.append("%s %d %d %x" % (rng.choice(["appendu", "insertu", "happendu", "hinsertu"]), s, k, v))
        elif r < 0.89:
            lines.append("%s %d %d" % (rng.choice(["trimu", "chopu", "htrimu", "hchopu"]), s, rng.choice([2, 4, 8])))
        elif r < 0.95 and nslots > 1:
            d = rng.choice([x for x in range(nslots)])
            if d != s:
                lines.append("dup %d %d" % (s, d))
                if d not in live:
                    live.append(d)
        elif r < 0.97:
            lines.append("pullup %d" % s)
        else:
            lines.append("insert %d %s" % (s, rhex(rng, rng.choice([41, 56, 72, 96, 120]))))
    for s in range(nslots):
        lines.append("free %d" % s)
    return lines


OBS = re.compile(r"rv=(\d+) val=(\S+)(?: hdr=(\S+) body=(\S+)(?: cap=(\d+))?| none)?")
SPEC = re.compile(r"spec rv=(\d+) val=(\S+) hdr=(\S+) body=(\S+) tailfree=(\d+)")


def hlen(h):
    return 0 if h == "-" else len(h) // 2


def spec_check(model, cases, iouts):
    """Per-step refinement check of the implementation against the extracted
    MsgSpec: from the implementation's own previously observed (hdr, body) of
    the slot, the op must produce what spec_step says.  Returns
    {case index: (op index, text)} for the first contradiction of each case."""
    queries, where = [], []
    for ci, case in enumerate(cases):
        st = {}
        for k, line in enumerate(case):
            t = line.split()
            io = iouts[ci][k] if k < len(iouts[ci]) else None
            m = OBS.match(io or "")
            op = t[0]
            if op == "free":
                st.pop(t[1], None)
                continue
            if m is None or m.group(3) is None:
                if op not in ("free",) and (io is None or not io.startswith("rv=")):
                    where.append((ci, k, None, "no/odd output %r" % io)); queries.append(None)
                continue
            new = (m.group(1), m.group(2), m.group(3), m.group(4), m.group(5))
            if op == "alloc":
                if new[0] != "0" or new[2] != "-" or hlen(new[3]) != int(t[2]) or int(new[4]) < int(t[2]):
                    where.append((ci, k, None, "alloc result wrong: %s" % io[:80])); queries.append(None)
                st[t[1]] = new
            elif op == "dup":
                src = st.get(t[1])
                if src and (new[0] != "0" or new[2] != src[2] or new[3] != src[3]):
                    where.append((ci, k, None, "dup differs from its original")); queries.append(None)
                st[t[2]] = new
            elif op == "pullup":
                old = st.get(t[1])
                if old:
                    exp = ("" if old[2] == "-" else old[2]) + ("" if old[3] == "-" else old[3])
                    if new[2] != "-" or (new[3] if new[3] != "-" else "") != exp:
                        where.append((ci, k, None, "pull_up result is not header++body")); queries.append(None)
                st[t[1]] = new
            else:
                old = st.get(t[1])
                if old:
                    queries.append("spec %s %s %s %s" % (old[2], old[3], op, " ".join(t[2:])))
                    where.append((ci, k, new, None))
                st[t[1]] = new
            # a message other than the target must not change: checked by later observations of that slot
    rc, out, err = run_prog(model, "\n".join(q for q in queries if q) + "\n", timeout=600)
    res = {}
    oi = 0
    for (ci, k, new, text), q in zip(where, queries):
        if q is None:
            res.setdefault(ci, (k, text))
            continue
        sm = SPEC.match(out[oi]) if oi < len(out) else None
        oi += 1
        if ci in res:
            continue
        if not sm:
            res[ci] = (k, "spec evaluation failed")
            continue
        srv, sval, shdr, sbody, tf = sm.groups()
        tf = int(tf)
        irv, ival, ihdr, ibody, icap = new
        bad = None
        if irv != srv:
            bad = "rv %s, spec says %s" % (irv, srv)
        elif ival != sval:
            bad = "value %s, spec says %s" % (ival, sval)
        elif ihdr != shdr:
            bad = "header differs from spec"
        elif tf == 0 and ibody != sbody:
            bad = "body differs from spec"
        elif tf > 0 and (hlen(ibody) != hlen(sbody) + tf or not (ibody if ibody != "-" else "").startswith(sbody if sbody != "-" else "")):
            bad = "realloc did not keep the body as a prefix of the requested length"
        elif icap is not None and int(icap) < hlen(ibody):
            bad = "capacity %s below length %d" % (icap, hlen(ibody))
        if bad:
            res[ci] = (k, bad)
    return res


def run(tier, seed, replay=None):
    rep = Report("C17", tier, seed)
    ok, msg = gen_consts("c17")
    cb = coq_build("Properties_C17")
    gate = coq_gate()
    rep.proof_cov(cb, "make -C coq Props/Properties_C17.vo && coqc Props/Properties_C17.v (Print Assumptions) ; grep gate")
    proof_ok = ok and cb["ok"] and not gate
    model_build("msg")
    bdir, err = nng_build("asan")
    if bdir is None:
        p = rep.replay_file("build_failed.txt", err)
        rep.violation(p, "nng does not build", nofail=True)
        return rep.finish()
    impl, err = wb_build(bdir, "wb_msg.c")
    model = model_bin("modeld_msg")
    rng = random.Random(seed)
    ncases = 400 if tier == "quick" else 20000
    if replay:
        cases = [[l.strip() for l in open(replay) if l.strip() and not l.startswith("#")]]
    else:
        corpus = load_corpus("C17")
        cases = corpus + [gen_case(rng) for _ in range(ncases)]
    nevals = 0
    classes = set()
    distinct = set()
    diverged = []      # (case idx, line idx) model-vs-impl
    hist = {}
    for b0 in range(0, len(cases), 200):
        batch = cases[b0:b0 + 200]
        iout, crash = run_cases(impl, batch)
        mout, mcrash = run_cases(model, batch)
        if crash:
            ci, rc, errtxt = crash
            # isolate
            single, c2 = run_cases(impl, [batch[ci]])
            small = ddmin(batch[ci], lambda c: run_cases(impl, [c])[1] is not None) if c2 else batch[ci]
            p = rep.replay_file("crash_%d.case" % (b0 + ci), "# implementation crashed (rc=%s)\n# %s\n" % (rc, errtxt.replace("\n", "\n# ")) + "\n".join(small) + "\n")
            rep.violation(p, "implementation crashed / sanitizer report (rc=%s) on a precondition-respecting message program: %s" % (rc, san_summary(errtxt)))
            continue
        sv = spec_check(model, batch, iout)
        for ci, case in enumerate(batch):
            il = iout[ci]
            ml = mout[ci]
            nontrivial = False
            for k, line in enumerate(case):
                nevals += 1
                op = line.split()[0]
                hist[op] = hist.get(op, 0) + 1
                m = OBS.match(il[k] if k < len(il) else "")
                if m:
                    classes.add((op, m.group(1)))
                    if m.group(1) == "0" and op not in ("alloc", "free"):
                        nontrivial = True
            if ci in sv:
                k, text = sv[ci]
                small = ddmin(case, lambda c: case_spec_fails(impl, model, c))
                p = rep.replay_file("spec_%d.case" % (b0 + ci), "# %s at op %d (%s)\n" % (text, k, case[k][:100]) + "\n".join(small) + "\n")
                rep.violation(p, "implementation contradicts the two-byte-strings spec: %s (op: %s)" % (text, case[k][:80]))
            else:
                for k, line in enumerate(case):
                    io = il[k] if k < len(il) else None
                    mo = ml[k] if k < len(ml) else None
                    if io != mo:
                        diverged.append((b0 + ci, k, line, io, mo))
                        break
            if nontrivial:
                distinct.add(hash(tuple(case)))
    if diverged and not rep.violations:
        ci, k, line, io, mo = diverged[0]
        p = rep.replay_file("diverge_%d.case" % ci, "# model and implementation differ at op %d: %s\n# impl : %s\n# model: %s\n# (correspondence of MsgModel broken; %d cases diverge; spec oracle found no violation)\n" % (k, line, io, mo, len(diverged)) + "\n".join(cases[ci]) + "\n")
        rep.violation(p, "correspondence MsgModel<->message.c broken on %d cases; first: op %r impl=%r model=%r" % (len(diverged), line[:60], (io or "")[:120], (mo or "")[:120]), nofail=True)
    if not proof_ok and not rep.violations:
        proof_broken_report(rep, cb, "C17 theorems do not check (%s)" % ("; ".join(gate[:3]) if gate else msg if not ok else "see log"))
    rep.cov.update({"evaluations": nevals, "distinct_nontrivial": len(distinct),
                    "rule": "random op scripts (1-60 ops on 1-3 messages; sizes aimed at 0,31-33,63-65,1023-1025,2^k and the slack-split window) run on the real library (ASan/UBSan) and on the extracted model; a case is non-trivial if some op other than alloc/free succeeds; distinct = distinct scripts",
                    "samples": [cases[0][:12], cases[len(cases) // 2][:12]],
                    "op_histogram": hist, "op_rv_classes": len(classes), "cases": len(cases),
                    "model_impl_divergences": len(diverged)})
    rep.assumptions += ["sizes are unbounded nat in the model: SIZE_MAX overflow guards not represented",
                        "memcpy/memmove modelled as list blits; nni_zalloc zero-fills"]
    return rep.finish()


def case_spec_fails(impl, model, case):
    iout, crash = run_cases(impl, [case])
    if crash:
        return True
    return 0 in spec_check(model, [case], iout)
