# C13 -- devices route replies back correctly and hop limits kill loops (DESIGN 5/C13)
#
# Correspondence of coq/Route/RouteModel.v (extracted: ocaml/drv_c13.ml) with the real library
# (harness/wb_device.c), four kinds of abstract, replayable cases (one per line in a replay file):
#   ichain fam=<reqrep|survey|pair1> ttls=<t1,..|-> tr=<n> nreq=<n> nrep=<n> rawreq=<0|1> rawrep=<0|1> rounds=<n>
#       REAL nng_device chain over inproc, concurrent requesters, decided by library quiescence
#   tap fam=<reqrep|survey|pair1> ttls=<..> nq=<n> pre=<k> msgs=<n>
#       REAL nng_device chain whose links are played by the harness over the deterministic transport: every
#       wire message of every hop is seen and compared with the model, request and reply direction
#   inj kind=<rep|xrep|resp|xresp|xreq|xsurv|pair1|pair1raw|devfront-<fam>|devback-<fam>> ttl=<n> wire=<hex>
#       one crafted wire message from a raw peer: Deliver / Drop / Close, header seen
#   loop kind=<reqrep|survey|pair1|bus> ttls=<..> wire=<hex> max=<n>
#       ring of REAL devices, links played by the harness; forwards counted by a watchdog
#   busrefl peers=<n> wire=<hex>
#       one raw BUS socket as a reflector device
#   order kind=<busrefl|bus2|pair1refl|reqrep|survey> devs=<n> k=<senders> n=<messages each>
#       k concurrent senders, numbered messages through REAL reflector / two-way / chained devices over inproc:
#       per sender strictly increasing at every receiver (drops allowed, overtaking not)
#   teardown fam=<..> mode=<blocked|idle|forwarded>
#       a device is cancelled while it holds a message / idle / after a forward: result, sockets closed, no leak
# The oracle is the property's wording evaluated on the implementation's own observations; the model
# is compared separately (a difference without an oracle failure is reported `no-failing-input-found`).
import os, random, re, select, subprocess, tempfile, time
from vlib import *

PEER_OF = {"rep0_raw": 48, "rep0": 48, "req0_raw": 49, "req0": 49, "respondent0_raw": 98, "respondent0": 98,
           "surveyor0_raw": 99, "surveyor0": 99, "pair1": 17, "pair1_raw": 17, "bus0_raw": 112, "bus0": 112}
FRONT = {"reqrep": "rep0_raw", "survey": "respondent0_raw", "pair1": "pair1_raw", "bus": "bus0_raw"}
BACK = {"reqrep": "req0_raw", "survey": "surveyor0_raw", "pair1": "pair1_raw", "bus": "bus0_raw"}
MAXTTL = 15
OBS = re.compile(r"^(?:got=(\S+) )?rv=(-?\d+)(?: pipe=p(\d+):([0-9a-f]{8}))?(?: count=(\d+))?( NOT-QUIESCENT)?(?: moves=(\S+))? done=- pipes=(\S+)$")


class Hang(Exception):
    pass


class Proc:
    """a line-in / line-out child process"""

    def __init__(self, path, env=None):
        self.err = tempfile.TemporaryFile()
        self.p = subprocess.Popen([path], stdin=subprocess.PIPE, stdout=subprocess.PIPE, stderr=self.err,
                                  env=dict(os.environ, **(env or {})), bufsize=0)
        self.buf = b""
        self.log = []

    def ask(self, line, timeout=60):
        self.log.append(line)
        try:
            self.p.stdin.write((line + "\n").encode())
            self.p.stdin.flush()
        except (BrokenPipeError, OSError):
            raise Hang("child died")
        end = time.time() + timeout
        while b"\n" not in self.buf:
            left = end - time.time()
            if left <= 0:
                raise Hang("no answer within %d s" % timeout)
            r, _, _ = select.select([self.p.stdout], [], [], left)
            if not r:
                raise Hang("no answer within %d s" % timeout)
            chunk = os.read(self.p.stdout.fileno(), 65536)
            if not chunk:
                raise Hang("child died")
            self.buf += chunk
        l, self.buf = self.buf.split(b"\n", 1)
        return l.decode()

    def close(self):
        try:
            self.p.stdin.close()
            self.p.wait(timeout=60)
        except Exception:
            self.p.kill()
        rc = self.p.returncode
        self.err.seek(0)
        e = self.err.read().decode(errors="replace")
        return rc, e

    def kill(self):
        try:
            self.p.kill()
            self.p.wait(timeout=10)
        except Exception:
            pass
        self.err.seek(0)
        return self.p.returncode, self.err.read().decode(errors="replace")


def pobs(l):
    m = OBS.match(l or "")
    if not m:
        return None
    got, rv, pn, pid, count, nq, moves, pipes = m.groups()
    d = {"got": got, "rv": int(rv), "pipe": int(pn) if pn is not None else None, "pid": pid, "count": int(count) if count else None,
         "nq": bool(nq), "moves": [], "pipes": {}}
    if moves and moves != "-":
        for x in moves.split(","):
            mm = re.match(r"p(\d+)([>x])p(\d+):(\S+)", x)
            d["moves"].append((int(mm.group(1)), int(mm.group(3)), "" if mm.group(4) == "-" else mm.group(4), mm.group(2) == ">"))
    if pipes != "-":
        for x in pipes.split(","):
            f = x.split(":")
            i = int(f[0][1:])
            if f[1] == "g":
                d["pipes"][i] = {"st": "g", "nt": 0, "tx": None, "inbox": 0}
            else:
                mm = re.match(r"r(\d+)i(\d+)", f[4])
                d["pipes"][i] = {"st": f[1], "nt": int(f[2][1:]), "tx": None if f[3] == "-" else f[3], "inbox": int(mm.group(2))}
    return d


def hx(b):
    return b if b else "-"


def w32(v):
    return "%08x" % v


def split_bt(wire):
    """(backtrace words up to and including the first word with the high bit, rest) or None"""
    i = 0
    while i + 8 <= len(wire):
        if int(wire[i:i + 2], 16) & 0x80:
            return wire[:i + 8], wire[i + 8:]
        i += 8
    return None


def parse_case(line):
    t = line.split()
    d = {"type": t[0]}
    for kv in t[1:]:
        k, v = kv.split("=", 1)
        d[k] = v
    return d


def fmt_case(d):
    return d["type"] + " " + " ".join("%s=%s" % (k, v) for k, v in d.items() if k != "type")


def alt_ttl(t):
    """another legal ttl value"""
    return 15 if t == 8 else 16 - t


def ttl_list(s):
    return [] if s == "-" else [int(x) for x in s.split(",")]


class Failure(Exception):
    def __init__(self, kind, text):
        self.kind, self.text = kind, text      # kind: "spec" | "model" | "harness"


class Runner:
    def __init__(self, impl, model):
        self.impl_path, self.model_path = impl, model
        self.impl = self.model = None
        self.mark = 0
        self.nops = 0
        self.stats = {}

    def start(self):
        if self.impl is None:
            self.impl = Proc(self.impl_path, ASAN_ENV)
        if self.model is None:
            self.model = Proc(self.model_path)

    def stop(self):
        res = (0, "")
        if self.impl is not None:
            res = self.impl.close()
            self.impl = None
        if self.model is not None:
            self.model.close()
            self.model = None
        return res

    def abort(self):
        res = (None, "")
        if self.impl is not None:
            res = self.impl.kill()
            self.impl = None
        if self.model is not None:
            self.model.kill()
            self.model = None
        return res

    def do(self, line, timeout=60):
        self.nops += 1
        l = self.impl.ask(line, timeout)
        o = pobs(l)
        if o is None:
            raise Failure("harness", "unparsable observation for %r: %r" % (line, l))
        if o["nq"]:
            raise Failure("spec", "library did not become quiescent within 10 s after %r" % line)
        return o

    def ask(self, q):
        a = self.model.ask(q)
        if a.startswith("error") or a.startswith("bad"):
            raise Failure("harness", "model driver: %r -> %r" % (q, a))
        return a

    def fresh(self):
        self.mark += 1
        l = self.impl.ask("mark %d" % self.mark, 90)
        if not l.startswith("mark"):
            raise Failure("harness", "mark answered %r" % l)

    def bump(self, k, n=1):
        self.stats[k] = self.stats.get(k, 0) + n

    # ------------------------------------------------------------------ ichain
    def run_ichain(self, c):
        fam, ttls, tr = c["fam"], ttl_list(c["ttls"]), int(c["tr"])
        nreq, nrep, rawreq, rawrep, rounds = int(c["nreq"]), int(c["nrep"]), int(c["rawreq"]), int(c["rawrep"]), int(c["rounds"])
        n = len(ttls)
        self.nops += 1
        l = self.impl.ask("ichain %s %s %d %d %d %d %d %d %d" % (fam, c["ttls"], tr, nreq, nrep, rawreq, rawrep, rounds, int(c.get("late", "0"))), 180)
        m = re.match(r"ichain rv=(-?\d+)( NOT-QUIESCENT)? sent=(\d+) delivered=(\d+) hdrmin=(\d+) hdrmax=(\d+) hdrbad=(\d+) replies=(\d+) noreply=(\d+) wrong=(\d+) late=(\d+) extra=(\d+) hops=(\S+)$", l)
        if not m:
            raise Failure("harness", "unparsable ichain result %r" % l)
        rv, nq, sent, delivered, hmin, hmax, hbad, replies, noreply, wrong, late, extra = [m.group(1), m.group(2)] + [int(x) for x in m.groups()[2:12]]
        hops = m.group(13)
        if nq:
            raise Failure("spec", "library did not become quiescent")
        if int(rv) != 0:
            raise Failure("harness", "scenario set-up / send failed rv=%s: %s" % (rv, l))
        if fam == "pair1":
            nreq = nrep = 1
        total = nreq * rounds
        # ---- the property's words on the implementation's observations
        within = all(i + 1 <= ttls[i] for i in range(n)) and n + 1 <= tr
        if wrong or extra:
            raise Failure("spec", "a reply reached somebody who is not its requester, or twice (wrong=%d extra=%d): %s" % (wrong, extra, l))
        if late:
            raise Failure("spec", "a reply arrived after the library was quiescent for its round (late=%d): %s" % (late, l))
        if hbad:
            raise Failure("spec", "delivered request with a damaged body or a malformed backtrace (hdrbad=%d): %s" % (hbad, l))
        if not within and (delivered or replies):
            raise Failure("spec", "a message that crossed more hops than a receiving socket's ttl was delivered (ttls=%s tr=%d): %s" % (ttls, tr, l))
        fan = nrep if fam == "survey" else 1
        if fam == "pair1":
            back_within = all((n - i) <= ttls[i] for i in range(n)) and n + 1 <= int(c["nreq"])
            want_del, want_rep = (total if within else 0), (total if within and back_within else 0)
        else:
            want_del = total * fan if within else 0
            want_rep = want_del
        if sent != total:
            raise Failure("harness", "sent %d of %d" % (sent, total))
        if delivered != want_del or replies != want_rep:
            raise Failure("spec", "within the hop limits every request must arrive and every reply return to its requester: expected delivered=%d replies=%d: %s" % (want_del, want_rep, l))
        if rawrep and fam != "pair1" and delivered and (hmin != n + 2 or hmax != n + 2):
            raise Failure("spec", "the backtrace at a raw replier behind %d devices must have %d words, saw %d..%d" % (n, n + 2, hmin, hmax))
        if fam == "pair1" and delivered:
            hv = hops.split(",")
            fw = [x for x in hv if not x.startswith("b")]
            bw = [x[1:] for x in hv if x.startswith("b")]
            if any(int(x) != n + 1 for x in fw) or any(int(x) != n + 1 for x in bw):
                raise Failure("spec", "pair1 hop count after %d devices must be %d: hops=%s" % (n, n + 1, hops))
        # ---- the model
        if fam == "pair1":
            a = self.ask("pchain 00000001aa %s" % " ".join(str(t) for t in ttls)) if n else "arrive 00000001aa 0"
            if a.startswith("arrive"):
                hop = int(a.split()[1][:8], 16)
                r = self.ask("recv pair1 0 %d %s" % (tr, a.split()[1]))
                mdel = r.startswith("deliver")
                if mdel and hop != n + 1:
                    raise Failure("model", "model hop %d" % hop)
            else:
                mdel = False
        else:
            hopsq = " ".join("%08x:%d" % (0x100 + i, t) for i, t in enumerate(ttls))
            a = self.ask("roundtrip %s %d 80000001 aa bb %s" % (fam, tr, hopsq))
            mdel = a.startswith("done")
            if mdel:
                f = a.split()
                if f[1] != "aa" or f[4] != "80000001" or f[5] != "bb" or (n and f[3].split(",") != ["%08x" % (0x100 + i) for i in reversed(range(n))]):
                    raise Failure("model", "model round trip %r" % a)
        if mdel != within:
            raise Failure("model", "model says delivered=%s, the property's rule says %s (ttls=%s tr=%d)" % (mdel, within, ttls, tr))
        self.bump("ichain_delivered" if within else "ichain_dropped")
        self.bump("ichain_len_%d" % n)

    # ------------------------------------------------------------------ helpers for script cases
    def build_chain(self, fam, ttls, nq, ring=False):
        """devices 0..n-1 on the deterministic transport; returns dict with pipes"""
        n = len(ttls)
        fp, bp = FRONT[fam], BACK[fam]
        info = {"front_pipe": [], "back_pipe": [], "q": []}
        for i in range(n):
            for s, p in ((2 * i, fp), (2 * i + 1, bp)):
                o = self.do("open s%d %s" % (s, p))
                if o["rv"] != 0:
                    raise Failure("harness", "open failed %d" % o["rv"])
            if fam != "bus":
                # first another value: the one that counts is set after the peers are connected (below)
                o = self.do("setopt s%d ttl-max int %d" % (2 * i, alt_ttl(ttls[i])))
                if o["rv"] != 0:
                    raise Failure("harness", "ttl-max %d refused: rv=%d" % (alt_ttl(ttls[i]), o["rv"]))
                if fam == "pair1":
                    self.do("setopt s%d ttl-max int %d" % (2 * i + 1, alt_ttl(ttls[i])))
        pid = {}
        in_pipe = {}

        def conn(s, proto):
            o = self.do("conn s%d %d" % (s, PEER_OF[proto]))
            if o["rv"] != 0 or o["pipe"] is None:
                raise Failure("harness", "conn failed")
            pid[o["pipe"]] = o["pid"]
            return o["pipe"]
        if not ring:
            for j in range(max(nq, 1) if fam != "pair1" else 1):
                info["q"].append(conn(0, fp))
            in_pipe[0] = info["q"][0]
        for i in range(n):
            b = conn(2 * i + 1, bp)
            info["back_pipe"].append(b)
            if i + 1 < n or ring:
                nxt = (i + 1) % n
                a = conn(2 * nxt, fp)
                in_pipe[nxt] = a
                self.do("link p%d p%d" % (b, a))
        info["in_pipe"] = in_pipe
        if fam != "bus":
            for i in range(n):
                for sck in ([2 * i, 2 * i + 1] if fam == "pair1" else [2 * i]):
                    o = self.do("setopt s%d ttl-max int %d" % (sck, ttls[i]))
                    if o["rv"] != 0:
                        raise Failure("spec" if 1 <= ttls[i] <= MAXTTL else "harness", "ttl-max %d refused after connecting: rv=%d" % (ttls[i], o["rv"]))
        info["pid"] = pid
        for i in range(n):
            o = self.do("device d%d s%d s%d" % (i, 2 * i, 2 * i + 1))
            if o["rv"] != 0:
                raise Failure("spec", "nng_device between two raw peers refused: rv=%d" % o["rv"])
        return info

    # ------------------------------------------------------------------ tap: per-hop conformance
    def run_tap(self, c, rng):
        fam, ttls, nq, pre0, msgs = c["fam"], ttl_list(c["ttls"]), int(c["nq"]), int(c["pre"]), int(c["msgs"])
        n = len(ttls)
        self.fresh()
        info = self.build_chain(fam, ttls, nq)
        pid = info["pid"]
        in_pipe = dict(info.get("in_pipe", {}))
        prep = info["back_pipe"][-1]
        for k in range(msgs):
            q = info["q"][k % len(info["q"])]
            in_pipe[0] = q
            # every second message is a plain one: after a message that was discarded on the way, traffic on the
            # same connections must still get through
            pre = pre0 if k % 2 == 0 else 0
            body = "%02x%02x%02x" % (0xb0 + (k & 15), rng.randrange(256), k & 255)
            if fam == "pair1":
                hop0 = rng.choice([1, 1, 1, 0, 2, max(ttls), max(ttls) + 1]) if pre else 1
                wire = w32(hop0) + body
            else:
                rid = 0x80000000 | rng.randrange(1, 1 << 31)
                prew = "".join(w32(rng.randrange(1, 1 << 31)) for _ in range(pre))
                wire = prew + w32(rid) + body
            o = self.do("inject p%d %s" % (q, wire))
            o = self.do("pump 200")
            # model, hop by hop
            w, expect, outcome = wire, [], "arrive"
            for i in range(n):
                if fam == "pair1":
                    a = self.ask("pfwd %d %s" % (ttls[i], hx(w)))
                else:
                    a = self.ask("fwd %s %s %d %s" % (fam, pid[in_pipe[i]], ttls[i], hx(w)))
                if a.startswith("send"):
                    w = a.split()[1]
                    w = "" if w == "-" else w
                    expect.append(w)
                else:
                    outcome = a + "@%d" % (i + 1)
                    break
            seen = [mv[2] for mv in o["moves"]]
            at_rep = o["pipes"][prep]["tx"]
            if at_rep is not None:
                h, b = at_rep.split("/")
                at_rep = ("" if h == "-" else h) + ("" if b == "-" else b)
                seen_all = seen + [at_rep]
            else:
                seen_all = seen
            # ---- oracle: body unchanged, one word per hop, nothing beyond the hop limit
            for j, s in enumerate(seen_all):
                if not s.endswith(body):
                    raise Failure("spec", "device %d changed the body: sent %s for a message with body %s" % (j + 1, s, body))
                if fam != "pair1":
                    if len(s) != len(wire) + 8 * (j + 1) or not s.endswith(wire):
                        raise Failure("spec", "device %d must extend the backtrace by exactly one word: %s -> %s" % (j + 1, wire, s))
                    if s[:8] != pid[in_pipe[j]]:
                        raise Failure("spec", "device %d pushed %s, not the id %s of the pipe the message came in on" % (j + 1, s[:8], pid[in_pipe[j]]))
                    if pre + 1 + j > ttls[j]:
                        raise Failure("spec", "device %d (ttl %d) forwarded a message that had crossed %d hops" % (j + 1, ttls[j], pre + 1 + j))
                else:
                    if int(s[:8], 16) != int(wire[:8], 16) + j + 1:
                        raise Failure("spec", "pair1 device %d must add one to the hop count: %s -> %s" % (j + 1, wire, s))
                    if int(wire[:8], 16) + j > ttls[j]:
                        raise Failure("spec", "pair1 device %d (ttl %d) forwarded hop %d" % (j + 1, ttls[j], int(wire[:8], 16) + j))
            if seen_all != expect:
                # lost although within the limits?
                raise Failure("spec" if len(seen_all) < len(expect) else "model",
                              "forwarded wires differ from the model: saw %s, model %s (%s)" % (seen_all, expect, outcome))
            self.bump("tap_" + outcome.split("@")[0].split()[0])
            if outcome != "arrive" or fam == "pair1" and at_rep is None:
                if outcome.startswith("close"):
                    return          # the injecting connection is gone; case ends
                continue
            if at_rep is None:
                continue
            # ---- the replier (played by the harness) answers: saved backtrace ++ new body
            self.do("sent p%d" % prep)
            if fam == "pair1":
                continue
            sp = split_bt(at_rep)
            rbody = "%02x%02x" % (0xc0 + (k & 15), rng.randrange(256))
            reply = sp[0] + rbody
            self.do("inject p%d %s" % (prep, reply))
            o = self.do("pump 200")
            w, rexp = reply, []
            for i in reversed(range(n)):
                a = self.ask("back %s %s" % (fam, hx(w)))
                if not a.startswith("send"):
                    raise Failure("model", "model lost a well-formed reply at device %d: %s" % (i + 1, a))
                f = a.split()
                w = "" if f[2] == "-" else f[2]
                rexp.append((f[1], w))
                if f[1] != pid[in_pipe[i]]:
                    raise Failure("model", "model routes the reply at device %d to pipe %s, the request came in on %s" % (i + 1, f[1], pid[in_pipe[i]]))
            rseen = [(pid[mv[0]], mv[2]) for mv in o["moves"]]
            fin = o["pipes"][q]["tx"]
            others = [x for x in info["q"] if x != q and o["pipes"][x]["tx"] is not None]
            if others:
                raise Failure("spec", "the reply went to a requester that did not ask (pipe p%d)" % others[0])
            if fin is None:
                raise Failure("spec", "the reply did not come back to the requester through %d devices (moves %s)" % (n, rseen))
            h, b = fin.split("/")
            fin = ("" if h == "-" else h) + ("" if b == "-" else b)
            rseen.append((pid[q], fin))
            want_fin = wire[8 * pre:8 * pre + 8] + rbody if pre == 0 else None
            for j, (pp, s) in enumerate(rseen):
                if len(s) != len(reply) - 8 * (j + 1) or not reply.endswith(s):
                    raise Failure("spec", "device %d on the way back must pop exactly one word: %s -> %s" % (n - j, reply, s))
            if pre == 0 and fin != want_fin:
                raise Failure("spec", "the requester must get its id and the reply body %s, got %s" % (want_fin, fin))
            if rseen != rexp:
                raise Failure("model", "reply path differs from the model: saw %s, model %s" % (rseen, rexp))
            self.do("sent p%d" % q)
            self.bump("tap_reply_ok")

    # ------------------------------------------------------------------ inj: crafted wire from a raw peer
    def run_inj(self, c):
        """steps: (ttl, wire) ... on ONE connection (a new one only after a disconnect).  For plain sockets the ttl
        is (re)set before every message -- after the peer connected --; a device's sockets get theirs after the
        peers connected and before the device starts (a device owns its sockets: NNG_EBUSY afterwards)."""
        kind = c["kind"]
        steps = [(int(c["ttl"]), c["wire"])]
        if c.get("more"):
            for x in c["more"].split(";"):
                t, w = x.split(":")
                steps.append((int(t), w))
        self.fresh()
        dev = kind.startswith("dev")
        st = {"kind": kind, "dev": dev}
        if dev:
            fam = kind.split("-")[1]
            info = self.build_chain(fam, [steps[0][0]], 1)
            front = kind.startswith("devfront")
            st.update(fam=fam, front=front, info=info, p=info["q"][0] if front else info["back_pipe"][0],
                      other=info["back_pipe"][0] if front else info["q"][0])
            st["ppid"] = info["pid"][st["p"]]
            st["opid"] = info["pid"][st["other"]]
            st["mk"] = {"reqrep": ("xrep", "xreq"), "survey": ("xresp", "xsurv"), "pair1": ("pair1", "pair1")}[fam][0 if front else 1]
        else:
            proto = {"rep": "rep0", "xrep": "rep0_raw", "resp": "respondent0", "xresp": "respondent0_raw", "xreq": "req0_raw",
                     "xsurv": "surveyor0_raw", "pair1": "pair1", "pair1raw": "pair1_raw"}[kind]
            st["mk"] = "pair1" if kind == "pair1raw" else kind
            st["proto"] = proto
            self.do("open s0 %s" % proto)
            o = self.do("setopt s0 ttl-max int %d" % alt_ttl(steps[0][0]))
            if o["rv"] != 0:
                raise Failure("harness", "ttl-max refused rv=%d" % o["rv"])
            o = self.do("conn s0 %d" % PEER_OF[proto])
            st["p"], st["ppid"] = o["pipe"], o["pid"]
        for si, (ttl, wire) in enumerate(steps):
            if dev:
                ttl = steps[0][0]
            else:
                o = self.do("setopt s0 ttl-max int %d" % ttl)
                if o["rv"] != 0:
                    raise Failure("spec", "ttl-max %d refused on a connected socket rv=%d" % (ttl, o["rv"]))
            res = self.inj_one(st, ttl, wire, si)
            if res == "close":
                if dev:
                    break
                o = self.do("conn s0 %d" % PEER_OF[st["proto"]])
                if o["rv"] != 0 or o["pipe"] is None:
                    raise Failure("harness", "reconnect failed")
                st["p"], st["ppid"] = o["pipe"], o["pid"]

    def inj_one(self, st, ttl, wire, si):
        kind, dev, mk, p, ppid = st["kind"], st["dev"], st["mk"], st["p"], st["ppid"]
        qtok = wire.startswith("Q")      # Q = the id of the requester's pipe at the device (known only at run time)
        if qtok:
            wire = (st["opid"] if dev else "") + wire[1:]
        wire = "" if wire == "-" else wire
        a = self.ask("recv %s %s %d %s" % (mk, ppid, ttl, hx(wire)))
        o = self.do("inject p%d %s" % (p, hx(wire)))
        if o["rv"] != 0:
            raise Failure("harness", "inject refused")
        if dev:
            fam, front, other = st["fam"], st["front"], st["other"]
            o = self.do("pump 10")
            tx = o["pipes"][other]["tx"]
            closed = o["pipes"][p]["st"] != "o"
            if tx is not None:
                h, b = tx.split("/")
                seen = "send " + hx(("" if h == "-" else h) + ("" if b == "-" else b))
                self.do("sent p%d" % other)
            else:
                seen = "close" if closed else "nothing"
            if front or fam == "pair1":
                m = self.ask("pfwd %d %s" % (ttl, hx(wire))) if fam == "pair1" else self.ask("fwd %s %s %d %s" % (fam, ppid, ttl, hx(wire)))
                want = {"drop": "nothing"}.get(m, m)
            else:
                m = self.ask("back %s %s" % (fam, hx(wire)))
                if m.startswith("send"):
                    f = m.split()
                    # routed to the pipe named by the first word -- only our requester pipe exists
                    want = "send " + f[2] if f[1] == st["opid"] else "nothing"
                else:
                    want = "close" if a == "close" else "nothing"
            got = seen
            res_impl = "close" if closed else ("deliver" if tx is not None else "drop")
        else:
            r = self.do("recvnb s0")
            closed = r["pipes"][p]["st"] != "o"
            if r["rv"] == 0:
                got = "deliver %s %s" % tuple(r["got"].split("/"))
                if kind in ("rep", "resp"):
                    # the saved backtrace shows when the reply goes out
                    s = self.do("send s0 - cc")
                    tx = s["pipes"][p]["tx"]
                    if s["rv"] != 0 or tx is None:
                        raise Failure("spec", "the reply to a delivered request was not sent (rv=%d)" % s["rv"])
                    got = "deliver %s %s" % (tx.split("/")[0], r["got"].split("/")[1])
                    self.do("sent p%d" % p)
                res_impl = "deliver"
            elif r["rv"] == 8:
                got = "close" if closed else "drop"
                res_impl = got
            else:
                raise Failure("harness", "recvnb rv=%d" % r["rv"])
            want = a
        # ---- oracle in the property's words
        words = split_bt(wire)
        nw = len(words[0]) // 8 if words else None
        nonraw_front = mk in ("xrep", "rep", "xresp", "resp")
        if mk == "pair1":
            must = len(wire) >= 8 and int(wire[:8], 16) <= ttl
        elif nonraw_front:
            must = words is not None and nw <= ttl
        else:
            must = words is not None and nw <= 16
            if dev:
                must = must and nw >= 2 and wire[:8] == st["opid"]
        where = "message %d on the connection" % (si + 1)
        if res_impl == "deliver":
            if mk == "pair1":
                if len(wire) < 8 or int(wire[:8], 16) > ttl:
                    raise Failure("spec", "pair1 (ttl %d) admitted hop header %s" % (ttl, wire[:8]))
            elif words is None:
                raise Failure("spec", "a backtrace without a terminating id was admitted: %s" % wire)
            elif nonraw_front and nw > ttl:
                raise Failure("spec", "a message that crossed %d hops was admitted by a socket whose ttl is %d (%s)" % (nw, ttl, where))
            elif nw + (1 if mk in ("xrep", "xresp") else 0) > 16:
                raise Failure("spec", "a backtrace longer than the header capacity was admitted")
            if not dev:
                f = got.split()
                hh, bb = ("" if f[1] == "-" else f[1]), ("" if f[2] == "-" else f[2])
                if len(hh) > 128:
                    raise Failure("spec", "header of %d bytes exceeds the header capacity" % (len(hh) // 2))
                if mk != "pair1":
                    pre = ppid if mk in ("xrep", "xresp") else ""
                    if kind in ("rep", "resp"):
                        if hh != words[0] or bb != words[1]:
                            raise Failure("spec", "cooked receive must save the backtrace %s and deliver the body %s: got %s / %s" % (words[0], words[1], hh, bb))
                    elif hh + bb != pre + wire:
                        raise Failure("spec", "the bytes delivered (%s / %s) are not the bytes received (%s)" % (hh, bb, wire))
        elif must:
            raise Failure("spec", "%s (ttl %d in force): a well-formed message within the hop limit was %s instead of delivered%s: %s"
                          % (where, ttl, "answered with a disconnect" if res_impl == "close" else "discarded",
                             " -- an earlier discarded message must not take the connection's later traffic with it" if si else "", hx(wire)))
        if got != want:
            raise Failure("model", "%s ttl=%d wire=%s (%s): implementation %r, model %r" % (kind, ttl, hx(wire), where, got, want))
        self.bump("inj_%s_%s" % (kind.split("-")[0], res_impl))
        if si:
            self.bump("inj_followup_%s" % res_impl)
        return res_impl

    # ------------------------------------------------------------------ loops
    def run_loop(self, c):
        kind, ttls, wire, mx = c["kind"], ttl_list(c["ttls"]), c["wire"], int(c["max"])
        n = len(ttls)
        self.fresh()
        info = self.build_chain(kind, ttls, 0, ring=True)
        entry = info["in_pipe"][0]
        o = self.do("inject p%d %s" % (entry, wire))
        o = self.do("pump %d" % mx, timeout=120)
        count = o["count"]
        a = self.ask("loop %s %d %s %s" % (kind, mx + 5, wire, " ".join(str(t) for t in ttls)))
        mf = int(a.split()[1])
        alive = int(a.split()[3])
        bound = {"reqrep": max(ttls), "survey": max(ttls), "pair1": max(ttls) + 1}.get(kind)
        self.bump("loop_%s" % kind)
        self.stats["loop_max_forwards_%s" % kind] = max(self.stats.get("loop_max_forwards_%s" % kind, 0), count)
        if kind == "bus":
            # no hop limit exists: the model says the ring never dies; the watchdog must stop it
            if o["rv"] == 8 and count == mx and alive > 0 and mf >= mx:
                return "bus-ring-alive"
            raise Failure("model", "bus ring: implementation made %d forwards (rv=%d), model %d alive=%d" % (count, o["rv"], mf, alive))
        if o["rv"] != 0 or count > bound:
            raise Failure("spec", "forwarding loop did not die out within the bound: %d forwards (bound %d, ttls %s, watchdog rv=%d)" % (count, bound, ttls, o["rv"]))
        if count != mf or alive != 0:
            raise Failure("model", "loop of %s devices ttls=%s: %d forwards, model %d (alive %d)" % (kind, ttls, count, mf, alive))
        # the ring is quiet again: the same message once more must travel exactly as far (a discarded message
        # does not silence the connection it came in on)
        self.do("inject p%d %s" % (entry, wire))
        o = self.do("pump %d" % mx, timeout=120)
        if o["rv"] != 0 or o["count"] > bound:
            raise Failure("spec", "second message in the ring: %d forwards (bound %d, watchdog rv=%d)" % (o["count"], bound, o["rv"]))
        if o["count"] != mf:
            raise Failure("spec" if o["count"] < mf else "model", "second message in the ring made %d forwards, the first one %d (ttls %s)" % (o["count"], mf, ttls))
        return None

    def run_busrefl(self, c):
        peers, wire = int(c["peers"]), c["wire"]
        self.fresh()
        self.do("open s0 bus0_raw")
        ps, pid = [], {}
        for _ in range(peers):
            o = self.do("conn s0 112")
            ps.append(o["pipe"])
            pid[o["pipe"]] = o["pid"]
        o = self.do("device d0 s0 -")
        if o["rv"] != 0:
            raise Failure("spec", "reflector device refused rv=%d" % o["rv"])
        src = ps[0]
        o = self.do("inject p%d %s" % (src, wire))
        a = self.ask("bfwd %s %s" % (pid[src], wire)).split()
        for p in ps:
            tx = o["pipes"][p]["tx"]
            if p == src:
                if tx is not None:
                    raise Failure("spec", "a raw BUS reflector returned the message to the pipe it came from")
            else:
                want = "-/" + wire
                if tx != want:
                    raise Failure("spec" if tx is None or not tx.endswith(wire) else "model", "bus reflector sent %s to another peer, expected %s" % (tx, want))
        if a[1] != pid[src] or a[2] != wire:
            raise Failure("model", "model bus device: %s" % a)
        self.bump("busrefl")

    def run_teardown(self, c):
        """stop a device while its path holds a message (send blocked: the far socket has no pipe), while it is
        idle, and after a forward; the device must finish with the cancel's code, close its sockets and
        leak nothing (LeakSanitizer at process exit) -- the observable part of RouteModel.device_cb's error path"""
        fam, mode = c["fam"], c["mode"]
        self.fresh()
        self.do("open s0 %s" % FRONT[fam])
        self.do("open s1 %s" % BACK[fam])
        o = self.do("conn s0 %d" % PEER_OF[FRONT[fam]])
        q = o["pipe"]
        b = None
        if mode != "blocked":
            b = self.do("conn s1 %d" % PEER_OF[BACK[fam]])["pipe"]
        o = self.do("device d0 s0 s1")
        if o["rv"] != 0:
            raise Failure("spec", "device refused rv=%d" % o["rv"])
        if mode != "idle":
            wire = (w32(1) if fam == "pair1" else w32(0x80000005)) + "d0d1"
            o = self.do("inject p%d %s" % (q, wire))
            if mode == "forwarded" and o["pipes"][b]["tx"] is None:
                raise Failure("spec", "device did not forward %s" % wire)
        o = self.do("devstop d0")
        if o["rv"] != 20:
            raise Failure("spec", "a cancelled device must finish with NNG_ECANCELED (20), got %d" % o["rv"])
        if any(p["st"] == "o" for p in o["pipes"].values()):
            raise Failure("spec", "a stopped device must close its sockets: %s" % o["pipes"])
        r = self.do("setopt s0 ttl-max int 3")
        if r["rv"] == 0:
            raise Failure("spec", "the device's socket is still usable after the device stopped")
        self.bump("teardown_" + mode)

    def run_order(self, c):
        """k concurrent senders, numbered messages, through a reflector / two-way / chain of REAL devices over inproc:
        per sender the numbers seen by every receiver must be strictly increasing (drops are allowed where the
        protocol allows them, overtaking is not) -- theorem device_keeps_order"""
        self.nops += 1
        l = self.impl.ask("iorder %s %s %s %s" % (c["kind"], c["devs"], c["k"], c["n"]), 300)
        m = re.match(r"iorder rv=(-?\d+)( NOT-QUIESCENT)? sent=(\d+) recv=(\d+) reorder=(\d+) back=(\d+) backreorder=(\d+) first=(\S+)$", l)
        if not m:
            raise Failure("harness", "unparsable iorder result %r" % l)
        if m.group(2):
            raise Failure("spec", "library did not become quiescent")
        rv, sent, recv, reorder, back, backre = int(m.group(1)), int(m.group(3)), int(m.group(4)), int(m.group(5)), int(m.group(6)), int(m.group(7))
        if rv != 0:
            raise Failure("harness", "order scenario failed rv=%d: %s" % (rv, l))
        if reorder or backre:
            raise Failure("spec", "messages of one sender overtook each other on the way through the device(s): %d + %d out-of-order deliveries "
                                  "among %d + %d received (first: %s) -- a device may drop, never reorder (nor echo a message to its sender)" % (reorder, backre, recv, back, m.group(8)))
        if recv == 0 or recv > sent * (1 if c["kind"] != "busrefl" else 1):
            raise Failure("spec", "order scenario: %d messages sent, %d received: %s" % (sent, recv, l))
        self.bump("order_%s" % c["kind"])
        self.bump("order_messages_checked", recv + back)

    def run_case(self, c, rng):
        t = c["type"]
        if t == "order":
            return self.run_order(c)
        if t == "teardown":
            return self.run_teardown(c)
        if t == "ichain":
            return self.run_ichain(c)
        if t == "tap":
            return self.run_tap(c, rng)
        if t == "inj":
            return self.run_inj(c)
        if t == "loop":
            return self.run_loop(c)
        if t == "busrefl":
            return self.run_busrefl(c)
        raise Failure("harness", "unknown case type " + t)


# ---------------------------------------------------------------------- generators
def ttl_vectors(rng, n, focus):
    """ttl vectors for a chain of n devices aimed at the boundary i <= t_i"""
    if focus == "exact":
        return [min(i + 1, MAXTTL) for i in range(n)]
    if focus == "max":
        return [MAXTTL] * n
    if focus == "fail":
        k = rng.randrange(n)
        v = [min(max(i + 1, rng.randrange(1, 16)), MAXTTL) for i in range(n)]
        v[k] = min(k, MAXTTL) if k > 0 else 1
        return v
    return [rng.randrange(1, 16) for _ in range(n)]


def gen_ichain(rng, tier):
    cases = []
    fams = ["reqrep", "survey", "pair1"]
    lens = list(range(0, MAXTTL + 3))
    for n in lens:
        fam = fams[n % 3] if tier == "quick" else None
        for f in ([fam] if fam else fams):
            for focus in (["exact", "fail", "max"] if tier == "quick" else ["exact", "max", "fail", "rand"] * 15):
                if focus == "fail" and n == 0:
                    continue
                ttls = ttl_vectors(rng, n, focus)
                ok_len = all(i + 1 <= ttls[i] for i in range(n))
                tr = rng.choice([min(n + 1, MAXTTL), min(n + 1, MAXTTL), min(max(n, 1), MAXTTL), MAXTTL, rng.randrange(1, 16)])
                cases.append({"type": "ichain", "fam": f, "ttls": ",".join(map(str, ttls)) or "-", "tr": str(tr),
                              "nreq": str(rng.choice([2, 3, 4]) if f != "pair1" else rng.choice([MAXTTL, n + 1 if 1 <= n + 1 <= MAXTTL else 8, 8])),
                              "nrep": str(rng.choice([1, 1, 2]) if f == "survey" else 1),
                              "rawreq": str(rng.randrange(2)), "rawrep": str(rng.randrange(2)), "rounds": str(2 if tier == "quick" else 3),
                              "late": str(rng.randrange(2))})
    return cases


def gen_tap(rng, count):
    cases = []
    for k in range(count):
        fam = ["reqrep", "survey", "pair1"][k % 3]
        n = rng.choice([1, 1, 2, 2, 3, 4, 5, rng.randrange(1, 9)])     # the deterministic transport has 16 endpoints: 8 devices
        focus = rng.choice(["exact", "max", "fail", "rand", "rand"])
        ttls = ttl_vectors(rng, n, focus)
        pre = rng.choice([0, 0, 0, 1, 2, rng.randrange(0, 16)])
        cases.append({"type": "tap", "fam": fam, "ttls": ",".join(map(str, ttls)), "nq": str(rng.choice([1, 2, 3])), "pre": str(pre),
                      "msgs": str(rng.choice([2, 3, 4]))})
    return cases


def rand_wire(rng, words, term, tail):
    w = ""
    for _ in range(words):
        w += w32(rng.randrange(0, 1 << 31) if rng.random() < 0.9 else rng.choice([0, 1, 0x7fffffff]))
    if term:
        w += w32(0x80000000 | rng.randrange(0, 1 << 31))
    w += "".join("%02x" % rng.randrange(256) for _ in range(tail))
    return w or "-"


def good_wire(rng, kind, words=0):
    """a well-formed message for this receiver with `words` hop entries before the id"""
    if "pair1" in kind:
        return w32(words + 1) + "%02x%02x" % (0xe0, rng.randrange(256))
    w = "".join(w32(rng.randrange(1, 1 << 31)) for _ in range(words)) + w32(0x80000000 | rng.randrange(1, 1 << 31)) + "%02x%02x" % (0xe0, rng.randrange(256))
    return ("Q" + w) if kind.startswith("devback") else w


def with_followups(rng, c):
    """after the crafted message: a well-formed one that must get through, then (often) a message that is over the
    limit of a NEW ttl value, and a well-formed one again -- the ttl changes between the messages"""
    kind = c["kind"]
    more = [(rng.randrange(1, 16), good_wire(rng, kind))]
    r = rng.random()
    if r < 0.6:
        t2 = rng.randrange(1, 15)
        over = good_wire(rng, kind, t2 + rng.choice([0, 0, 1]))       # t2 + 1 or t2 + 2 words: over t2
        if "pair1" in kind:
            over = w32(t2 + rng.choice([1, 2])) + "e1"
        more.append((t2, over))
        t3 = rng.randrange(1, 16)
        k = rng.randrange(0, t3)
        more.append((t3, good_wire(rng, kind, k if k + 1 <= t3 else 0)))
    c["more"] = ";".join("%d:%s" % (t, w) for t, w in more)
    return c


INJ_KINDS = ["rep", "xrep", "resp", "xresp", "xreq", "xsurv", "pair1", "pair1raw",
             "devfront-reqrep", "devback-reqrep", "devfront-survey", "devback-survey", "devfront-pair1"]


def gen_inj(rng, tier):
    cases = []
    # deterministic sweep: every backtrace depth 0..20 with and without the terminating id, at the ttl boundary
    for kind in INJ_KINDS:
        for words in range(0, 21):
            for term in (0, 1):
                if kind.startswith("pair1") or kind.endswith("pair1"):
                    continue
                ttls = sorted(set([1, MAXTTL, min(max(words, 1), MAXTTL), min(max(words + 1, 1), MAXTTL)])) if tier != "quick" else [min(max(words + rng.choice([0, 1]), 1), MAXTTL)]
                if tier == "quick" and kind.startswith("dev") and words % 3:
                    continue
                for ttl in ttls:
                    tail = rng.choice([0, 1, 2, 3, 4, 5, 9])
                    cases.append({"type": "inj", "kind": kind, "ttl": str(ttl), "wire": rand_wire(rng, words, term, tail)})
    for kind in ("pair1", "pair1raw", "devfront-pair1"):
        for ttl in (range(1, 16) if tier != "quick" else [1, 8, 15]):
            for h in [0, 1, ttl - 1, ttl, ttl + 1, 0xfe, 0xff, 0x100, 1 << 31, (1 << 32) - 1]:
                if h < 0:
                    continue
                cases.append({"type": "inj", "kind": kind, "ttl": str(ttl), "wire": w32(h) + "".join("%02x" % rng.randrange(256) for _ in range(rng.choice([0, 1, 3, 5])))})
        for short in ("-", "00", "0000", "000001"):
            cases.append({"type": "inj", "kind": kind, "ttl": "8", "wire": short})
    # random shapes: an id in the middle, high bytes anywhere, short tails
    for kind in ("devback-reqrep", "devback-survey"):
        for words in range(0, 18):
            for term in (0, 1):
                cases.append({"type": "inj", "kind": kind, "ttl": str(rng.randrange(1, 16)),
                              "wire": "Q" + rand_wire(rng, words, term, rng.choice([0, 2, 4, 6])).replace("-", "")})
    nrand = 1200 if tier == "quick" else 170000
    for _ in range(nrand):
        kind = rng.choice(INJ_KINDS)
        ttl = rng.randrange(1, 16)
        r = rng.random()
        if r < 0.5:
            words = rng.choice([0, 1, ttl - 1, ttl, ttl + 1, 14, 15, 16, 17, 20, rng.randrange(0, 21)])
            wire = rand_wire(rng, max(words, 0), rng.randrange(2), rng.choice([0, 1, 2, 3, 4, 7]))
        elif r < 0.8:
            wire = "".join("%02x" % rng.choice([0, 1, 0x7f, 0x80, 0xff, rng.randrange(256)]) for _ in range(rng.randrange(0, 90))) or "-"
        else:
            a = rng.randrange(0, 18)
            wire = rand_wire(rng, a, 1, 0) + rand_wire(rng, rng.randrange(0, 4), rng.randrange(2), rng.randrange(0, 6)).replace("-", "")
        if kind.startswith("devback") and kind != "devback-pair1" and rng.random() < 0.5:
            wire = "Q" + wire.replace("-", "")
        cases.append({"type": "inj", "kind": kind, "ttl": str(ttl), "wire": wire})
    return [with_followups(rng, c) for c in cases]


def gen_loops(rng, tier):
    cases = []
    for kind in ("reqrep", "survey", "pair1"):
        sizes = [1, 2, 3] if tier == "quick" else [1, 2, 3, 4, 5, 7]
        for n in sizes:
            if n == 1 and kind != "pair1":
                # a one-device ring of REQ/REP: the back socket connected to its own front socket
                pass
            tsets = [[MAXTTL] * n, [1] * n, [rng.randrange(1, 16) for _ in range(n)]]
            if tier != "quick":
                tsets += [[t] * n for t in range(2, 15)] + [[rng.randrange(1, 16) for _ in range(n)] for _ in range(40)]
            for ttls in tsets:
                if kind == "pair1":
                    wires = [w32(1) + "aa", w32(0) + "ab"]
                else:
                    wires = [w32(0x80000000 | rng.randrange(1 << 31)) + "aa", w32(rng.randrange(1, 1 << 31)) + w32(0x80000001) + "ab"]
                for w in wires:
                    cases.append({"type": "loop", "kind": kind, "ttls": ",".join(map(str, ttls)), "wire": w, "max": "40"})
    cases.append({"type": "loop", "kind": "bus", "ttls": "1,1", "wire": "aabbcc", "max": "40"})
    cases.append({"type": "loop", "kind": "bus", "ttls": "1,1,1", "wire": "aabbcd", "max": "60"})
    for peers in (2, 3, 5):
        cases.append({"type": "busrefl", "peers": str(peers), "wire": "b0%02x" % peers})
    for fam in ("reqrep", "survey", "pair1", "bus"):
        for mode in ("blocked", "idle", "forwarded"):
            cases.append({"type": "teardown", "fam": fam, "mode": mode})
    return cases


def gen_order(rng, tier):
    cases = []
    q = tier == "quick"
    for rep_ in range(3 if q else 40):
        cases.append({"type": "order", "kind": "busrefl", "devs": "0", "k": "2", "n": "2500"})
    cases.append({"type": "order", "kind": "busrefl", "devs": "0", "k": "3", "n": "1500"})
    cases.append({"type": "order", "kind": "busrefl", "devs": "0", "k": "1", "n": "4000"})
    for rep_ in range(2 if q else 20):
        cases.append({"type": "order", "kind": "bus2", "devs": "0", "k": str(rng.choice([2, 3])), "n": "1500"})
    for rep_ in range(1 if q else 10):
        cases.append({"type": "order", "kind": "pair1refl", "devs": "0", "k": "1", "n": "2500"})
    for fam in ("reqrep", "survey"):
        for nd in ([0, 1, 3] if q else [0, 1, 2, 3, 5, 8, 14]):
            for rep_ in range(1 if q else 4):
                cases.append({"type": "order", "kind": fam, "devs": str(nd), "k": str(rng.choice([2, 3, 4])), "n": str(rng.choice([200, 400]))})
    return cases


def run(tier, seed, replay=None):
    rep = Report("C13", tier, seed)
    ok, msg = gen_consts("c13")
    cb = coq_build("Properties_C13")
    gate = coq_gate()
    rep.proof_cov(cb, "make -C coq Props/Properties_C13.vo && coqc Props/Properties_C13.v (Print Assumptions) ; grep gate")
    proof_ok = ok and cb["ok"] and not gate
    why = "; ".join(gate[:3]) if gate else (msg if not ok else "see log")
    model_build("c13")
    bdir, err = nng_build("asan")
    if bdir is None:
        p = rep.replay_file("build_failed.txt", err)
        rep.violation(p, "nng does not build", nofail=True)
        return rep.finish()
    impl, err = wb_build(bdir, "wb_device.c")
    if impl is None:
        p = rep.replay_file("wb_device_build.txt", err)
        rep.violation(p, "device driver does not build against the current tree (correspondence broken)", nofail=True)
        return rep.finish()
    rng = random.Random(seed)
    if replay:
        cases = [parse_case(l.strip()) for l in open(replay) if l.strip() and not l.startswith("#")]
    else:
        cases = [parse_case(l) for c in load_corpus("C13") for l in c]
        cases += gen_ichain(rng, tier) + gen_tap(rng, 300 if tier == "quick" else 25000) + gen_inj(rng, tier) + gen_loops(rng, tier) + gen_order(rng, tier)
    R = Runner(impl, model_bin("modeld_c13"))
    model_fail, bus_alive = [], 0
    hist = {}
    nviol = 0
    t_start = time.time()
    for ci, c in enumerate(cases):
        hist[c["type"]] = hist.get(c["type"], 0) + 1
        crng = random.Random((seed << 20) ^ ci)
        try:
            R.start()
            r = R.run_case(c, crng)
            if r == "bus-ring-alive":
                bus_alive += 1
        except Hang as h:
            rc, errtxt = R.abort()
            p = rep.replay_file("crash_%d.case" % ci, "# implementation crashed or hung: %s (rc=%s)\n# %s\n%s\n" % (h, rc, errtxt[-2500:].replace("\n", "\n# "), fmt_case(c)))
            rep.violation(p, "implementation crashed / hung / sanitizer report on `%s`: %s" % (fmt_case(c)[:120], san_summary(errtxt) or str(h)))
            nviol += 1
        except Failure as f:
            if f.kind == "spec":
                p = rep.replay_file("spec_%d.case" % ci, "# %s\n%s\n" % (f.text.replace("\n", " "), fmt_case(c)))
                rep.violation(p, "C13: %s  [%s]" % (f.text, fmt_case(c)[:160]))
                nviol += 1
            elif f.kind == "model":
                model_fail.append((ci, c, f.text))
            else:
                p = rep.replay_file("harness_%d.case" % ci, "# harness problem: %s\n%s\n" % (f.text, fmt_case(c)))
                rep.violation(p, "harness problem (correspondence not established): %s" % f.text, nofail=True)
                nviol += 1
            # a failed case may leave the driver in an odd state
            R.abort()
        if nviol > 12:
            break
    rc, errtxt = R.stop()
    if rc not in (0, None) and not rep.violations:
        p = rep.replay_file("exit.txt", errtxt[-4000:])
        rep.violation(p, "driver exited with rc=%s: %s" % (rc, san_summary(errtxt)))
    if model_fail and not rep.violations:
        ci, c, text = model_fail[0]
        p = rep.replay_file("diverge_%d.case" % ci, "# model and implementation differ (%d cases; the spec oracle found no violation)\n# %s\n%s\n" % (len(model_fail), text, fmt_case(c)))
        rep.violation(p, "correspondence Route model<->code broken on %d cases; first: %s" % (len(model_fail), text), nofail=True)
    if not proof_ok and not rep.violations:
        proof_broken_report(rep, cb, "C13 theorems do not check (%s)" % why)
    rep.cov["evaluations"] = R.nops
    rep.cov["distinct_nontrivial"] = len(set(fmt_case(c) for c in cases))
    rep.cov["cases"] = len(cases)
    rep.cov["case_histogram"] = hist
    rep.cov["outcome_histogram"] = dict(sorted(R.stats.items()))
    rep.cov["model_impl_divergences"] = len(model_fail)
    rep.cov["bus_rings_still_alive_at_watchdog"] = bus_alive
    if bus_alive:
        key = "bus-device-ring-never-dies"
        text = ("BUS has no hop limit: %d ring(s) of raw BUS devices were still forwarding the same message when the watchdog stopped them "
                "(model: Properties_C13.ttl_kills_loops_bus_refuted)" % bus_alive)
        if key in rep.known or os.environ.get("C13_BUS_RING_STRICT") == "1":
            p = rep.replay_file("bus_ring.case", "# %s\nloop kind=bus ttls=1,1 wire=aabbcc max=40\n" % text)
            rep.violation(p, text, key=key)
        else:
            rep.cov["unlisted_observation"] = text + " -- recorded only: the hop-limit clause of C13 speaks of sockets that have NNG_OPT_MAXTTL, BUS has none; reported to main as a known: candidate"
    rep.cov["samples"] = [fmt_case(c) for c in (cases[:2] + cases[len(cases) // 2:len(cases) // 2 + 2] + cases[-2:])]
    rep.cov["rule"] = (
        "ichain: REAL nng_device chains over inproc (lengths 0..17 for REQ/REP, SURVEYOR/RESPONDENT, PAIRv1; ttl 1..15 per hop aimed at i = t_i / "
        "i = t_i + 1; 2-4 concurrent requesters / surveyors, 1-2 respondents, cooked and raw ends, several rounds), every decision taken at library "
        "quiescence (hook H2q), never by a timeout: delivered / dropped, every reply back at exactly its requester, backtrace depth at a raw replier; "
        "tap: REAL nng_device chains whose links are played by the harness over the deterministic transport so that every forwarded wire message is "
        "compared with the model hop by hop in both directions (body unchanged, one word pushed / popped, pipe chosen); inj: one crafted wire message "
        "(0..20 hop words, with / without terminating id, id in the middle, tails of 0..9 bytes, random bytes; all pair1 hop classes) into REP, raw REP, "
        "RESPONDENT, raw RESPONDENT, raw REQ, raw SURVEYOR, PAIR1, raw PAIR1 and into both sides of a running device: Deliver / Drop / Close and the "
        "header seen; loop: rings of 1..7 REAL devices with a watchdog, forwards counted against the bound of ttl_kills_loops and the model's count; "
        "Every inj case continues on the SAME connection: after the crafted message a well-formed one that must be delivered (and, for cooked sockets, "
        "answered), then a message over a NEW ttl value and a well-formed one again (a discarded message must not silence its connection); "
        "NNG_OPT_MAXTTL is first set to another value and gets the value that counts only AFTER the peers are connected (plain sockets: again "
        "before every message; device sockets, which a running device owns: after wiring, before the device starts; ichain: late=1) -- the ttl "
        "in force when the message is received decides; tap alternates discarded and plain messages on the same connections; every ring gets its "
        "message twice.  "
        "order: k = 1..4 concurrent senders with numbered messages (2 x 2500 through a raw BUS reflector device, as many through a two-way BUS "
        "device, a PAIR1 reflector, raw REQ / SURVEYOR bursts through 0..14 devices and back), buffers at their maxima: per sender strictly "
        "increasing at every receiver (drops allowed, overtaking never; schedule dependent -- sized so that two forwarders on one socket show "
        "tens of overtaken messages per case).  "
        "BUS rings (no hop limit exists) are run to the watchdog and recorded, a BUS reflector must not echo.  Real-time effects: none is used -- REQ "
        "resend and survey expiry are disabled / set to an hour, nothing waits on a clock.  non-trivial = distinct abstract cases.")
    rep.cov["not_covered"] = ("device teardown / error paths of device_cb (model: Route/RouteModel.device_cb, proved, not driven), best-effort drops "
                              "under back-pressure, TCP/IPC/TLS/WebSocket transports between devices (the header handling is transport independent: "
                              "all of them deliver header ++ body with an empty nni_msg header)")
    return rep.finish()
