# C19 -- URL parsing: strict acceptance, canonical and idempotent output (DESIGN 5/C19)
#
# White-box differential run of nng_url_parse / nng_url_sprintf / nng_url_clone /
# nni_url_canonify_uri (harness/wb_url.c, sanitised static library built from
# the working tree) against the extracted Coq model (ocaml/drv_url.ml), plus a
# spec oracle that judges the *implementation's* observations against the
# extracted spec predicates (Utf8Spec / CanonSpec / UrlSpec) and a few
# string identities evaluated here (authority split, round trip, clone equal).
import os, random, re
from vlib import *

PROP = "C19"
SCHEMES_FALLBACK = "http https tcp tcp4 tcp6 tls+tcp tls+tcp4 tls+tcp6 socket inproc ipc unix abstract ws ws4 ws6 wss wss4 wss6 udp udp4 udp6 dtls dtls4 dtls6 file mailto gopher ftp ssh git telnet irc imap imaps".split()


def consts_tables():
    """scheme table / path-only schemes / flags as generated into Gen/Consts.v"""
    txt = open(os.path.join(COQ, "Gen", "Consts.v")).read()
    m = re.search(r"\(\* url\.c nni_schemes\[\] : ([^*]*)\*\)", txt)
    schemes = m.group(1).split() if m else SCHEMES_FALLBACK
    m = re.search(r"scheme://path only : ([^*]*)\*\)", txt)
    ponly = m.group(1).split() if m else ["ipc", "unix", "abstract", "inproc", "socket"]
    flags = {}
    for k in ("SCHEME_EXACT", "UTF8_ACCUM", "CLONE_ALLOC", "CLONE_NULL", "BRACKET"):
        m = re.search(r"URL_FIX_%s : bool := (\w+)" % k, txt)
        flags[k] = (m.group(1) == "true") if m else None
    return schemes, ponly, flags


def hx(b):
    return b.hex() if b else "-"


def unhx(h):
    if h == "NULL":
        return None
    return b"" if h == "-" else bytes.fromhex(h)


def pct(b):
    return b"".join(b"%%%02X" % c for c in b)


def pctl(b):
    return b"".join(b"%%%02x" % c for c in b)


# ---------------------------------------------------------------- generators
UTF8_SEQS = [
    # valid, each length class and the boundaries of every range of RFC 3629
    b"\xc2\x80", b"\xdf\xbf", b"\xe0\xa0\x80", b"\xe0\xbf\xbf", b"\xe1\x80\x80", b"\xec\xbf\xbf", b"\xed\x80\x80",
    b"\xed\x9f\xbf", b"\xee\x80\x80", b"\xef\xbf\xbf", b"\xf0\x90\x80\x80", b"\xf0\xbf\xbf\xbf", b"\xf1\x80\x80\x80",
    b"\xf3\xbf\xbf\xbf", b"\xf4\x80\x80\x80", b"\xf4\x8f\xbf\xbf", b"\xc3\xa9", b"\xe2\x82\xac", b"\xf0\x9f\x98\x80",
    b"\xed\x80\xb0", b"\xed\x9f\xb0", b"\xe1\x80\xb0",
    # overlong
    b"\xc0\x80", b"\xc0\xaf", b"\xc1\xbf", b"\xe0\x80\x80", b"\xe0\x9f\xbf", b"\xe0\x80\xaf", b"\xf0\x80\x80\x80",
    b"\xf0\x8f\xbf\xbf", b"\xf0\x80\x80\xaf",
    # surrogates
    b"\xed\xa0\x80", b"\xed\xad\xbf", b"\xed\xae\x80", b"\xed\xaf\xbf", b"\xed\xb0\x80", b"\xed\xbe\x80", b"\xed\xbf\xbf",
    # above U+10FFFF / invalid leads
    b"\xf4\x90\x80\x80", b"\xf4\xbf\xbf\xbf", b"\xf5\x80\x80\x80", b"\xf7\xbf\xbf\xbf", b"\xf8\x88\x80\x80\x80",
    b"\xfc\x84\x80\x80\x80\x80", b"\xfe", b"\xff",
    # stray continuation / truncated
    b"\x80", b"\xbf", b"\xc2", b"\xdf", b"\xe0\xa0", b"\xe1\x80", b"\xed\x80", b"\xf0\x90\x80", b"\xf1\x80", b"\xf4\x80\x80",
    b"\xc2\x41", b"\xe1\x80\x41", b"\xf1\x80\x80\x41", b"\xe1\x41\x80", b"\xc2\xc2\x80",
]
SEGS = [b"", b".", b"..", b"...", b"%2e", b"%2E", b"%2e%2E", b".%2e", b"%2F", b"%2f", b"a", b"b", b"A", b"a.b", b"%41", b"%7e",
        b"%7E", b"~", b"%5f", b"%2d", b"%30", b"%7a", b"%5A", b"%20", b"%25", b"%3f", b"%23", b"%00", b"%", b"%4", b"%zz", b"%4g",
        b"%g4", b"%%41", b"%2%35", b"a%", b" ", b"a b", b".a", b"a.", b"..a", b".%00", b"x+y", b";p=1", b"@", b":", b"[", b"]", b"%c3%a9",
        b"%C3%A9", b"%e2%82%ac", b"%80", b"%c3", b"%c3a", b"\x7f", b"\x01"]
HOSTS = [b"h", b"host", b"Host.Example.COM", b"www.google.com", b"127.0.0.1", b"[::1]", b"[FE80::1]", b"[fe80::1%25eth0]", b"[::1",
         b"[::1]x", b"[]", b"[", b"]", b"[[x]]", b"[[x]", b"[[::1]", b"[[::1]", b"[a]b]", b"[a:]", b"", b"a b", b"h%41", b"H\xc3\x89", b"x.y-z_0", b"*", b"a[b",
         b"xn--nxasmq6b", b"A" * 255, b"a" * 256, b"[" + b"a" * 255 + b"]", b"[" + b"a" * 256 + b"]", b"a" * 250, b"B" * 257]
PORTS = [b"", b"", b"", b":80", b":0", b":1", b":443", b":65535", b":65536", b":99999", b":", b":http", b":HTTP", b":https",
         b":ssh", b":nosuchsvc", b": 80", b":+80", b":-0", b":-1", b":080", b":00000000000000000000080",
         b":99999999999999999999", b":-99999999999999999999", b":8x", b":x8", b":80:81", b":\t9", b":+", b":-", b":0x10",
         b":8 ", b":1e3", b":%38%30", b":smtp", b":domain"]
USERS = [b"", b"", b"", b"user@", b"User:Pass@", b"@", b"a@b@", b"u%40@", b"\xc3\xa9@"]
QUERIES = [b"", b"", b"", b"?", b"?a=b", b"?a=%41%2f", b"?x//y/../z/./w", b"?q#", b"?%", b"?%zz", b"?\xc3\xa9", b"?%C3%A9", b"?%e0%9f%bf",
           b"?a?b", b"?%80"]
FRAGS = [b"", b"", b"", b"#", b"#f", b"#a?b#c", b"#%C3%A9", b"#//x/../y", b"#%", b"#%4", b"#%41", b"#\xed\xa0\x80x", b"#%ff"]


def gen_scheme(rng, schemes):
    r = rng.random()
    s = rng.choice(schemes).encode()
    if r < 0.62:
        return s
    if r < 0.74:
        return s[:rng.randrange(0, len(s))]           # proper prefix (incl. empty)
    if r < 0.80:
        return s + rng.choice([b"s", b"4", b"6", b"x", b"+", b"7"])
    if r < 0.86:
        return rng.choice([s.upper(), s.capitalize(), s[:-1] + s[-1:].upper()])
    if r < 0.90:
        return rng.choice([b"nosuch", b"h", b"t", b"i", b"w", b"x", b"htt", b"tls+", b"tls", b"HTTP", b" http", b"http ", b"ht tp", b"1", b"+"])
    if r < 0.95:
        k = rng.randrange(len(s))
        return s[:k] + bytes([s[k] ^ rng.choice([1, 0x20, 0x80])]) + s[k + 1:]
    return s + b":" + s


def gen_path(rng, maxseg=6):
    n = rng.choice([0, 0, 1, 1, 2, 3, 4, maxseg])
    out = b""
    for _ in range(n):
        out += rng.choice([b"/", b"/", b"/", b"//", b"///"])
        r = rng.random()
        if r < 0.55:
            out += rng.choice(SEGS)
        elif r < 0.80:
            u = rng.choice(UTF8_SEQS)
            enc = rng.choice([lambda x: x, pct, pctl])
            out += rng.choice([b"", b"a", b"."]) + enc(u) + rng.choice([b"", b"", b"x", b"%41"])
        else:
            out += rng.choice(SEGS) + rng.choice(SEGS)
    if rng.random() < 0.25:
        out += b"/"
    return out


def gen_url(rng, schemes):
    sch = gen_scheme(rng, schemes)
    sep = b"://" if rng.random() < 0.93 else rng.choice([b":/", b":", b"", b"//", b":///", b"::/", b":/x/"])
    auth = rng.choice(USERS) + rng.choice(HOSTS if rng.random() < 0.8 else HOSTS[:8]) + rng.choice(PORTS)
    u = sch + sep + auth + gen_path(rng) + rng.choice(QUERIES) + rng.choice(FRAGS)
    return u


def gen_malformed(rng, schemes):
    u = bytearray(gen_url(rng, schemes))
    r = rng.random()
    if r < 0.4 and len(u) > 1:
        u = u[:rng.randrange(1, len(u))]
    elif r < 0.6 and len(u) > 0:
        k = rng.randrange(len(u))
        u[k] = rng.randrange(1, 256)
    elif r < 0.8:
        k = rng.randrange(len(u) + 1)
        u[k:k] = rng.choice([b"%", b"%4", b"%G1", b"%1G", b"%%", b"\x80", b"\xc0", b"\xff", b"@", b"[", b"]", b":", b"#", b"?"])
    else:
        k = rng.randrange(len(u) + 1)
        del u[k:k + rng.randrange(1, 4)]
    return bytes(u).replace(b"\x00", b"\x01")


def gen_sized(rng, schemes):
    """lengths around the two size limits: the text from '://' on of 120..140 bytes
    (inline/heap switch at 128), whole URLs of 250..260, host names of 250..260"""
    sch = rng.choice(schemes).encode()
    kind = rng.randrange(4)
    if kind == 0:
        target = rng.randrange(120, 141)
        base = b"://" + rng.choice([b"h", b"User@Host", b"[::1]:80", b""]) + gen_path(rng, 3)
        tail = rng.choice(QUERIES) + rng.choice(FRAGS)
        pad = target - len(base) - len(tail)
        if pad > 0:
            base += b"/" + (rng.choice([b"a", b"%41", b".", b"/", b"\xc3\xa9", b"%2e"]) * pad)[:pad - 1]
        return sch + base + tail
    if kind == 1:
        target = rng.randrange(250, 261)
        base = sch + b"://h/"
        return base + (rng.choice([b"a", b"b/", b"%7e", b"./", b"../", b"\xe2\x82\xac"]) * target)[:max(0, target - len(base))]
    if kind == 2:
        n = rng.randrange(250, 261)
        host = (rng.choice([b"a", b"A", b"ab.", b"x-"]) * n)[:n]
        if rng.random() < 0.3:
            host = b"[" + host + b"]"
        return sch + b"://" + rng.choice([b"", b"u@"]) + host + rng.choice([b"", b":80", b":http"]) + rng.choice([b"", b"/p"])
    # exactly at the switch: strlen(s) = 127 / 128 / 129 with s = "://" + rest
    n = rng.choice([126, 127, 128, 129, 130])
    rest = b"://h/" + b"a" * 200
    return sch + rest[:n]


def lead_matrix():
    """every byte 0x80..0xff as a lead x 0..3 following bytes drawn from the
    boundaries of the continuation ranges and from non-continuation bytes"""
    conts = [0x80, 0x8f, 0x90, 0x9f, 0xa0, 0xbf]
    non = [0x41, 0x7f, 0xc0, 0xc2]
    res = []
    for lead in range(0x80, 0x100):
        res.append(bytes([lead]))
        for c1 in conts + non:
            res.append(bytes([lead, c1]))
            if c1 in conts and lead >= 0xe0:
                for c2 in (0x80, 0xbf, 0x41):
                    res.append(bytes([lead, c1, c2]))
                    if c2 != 0x41 and lead >= 0xf0:
                        for c3 in (0x80, 0xbf, 0x41):
                            res.append(bytes([lead, c1, c2, c3]))
    return res


def url_case(u):
    h = hx(u)
    return ["parse " + h, "sprintf " + h, "rt " + h, "clone " + h]


def canon_case(s):
    h = hx(s)
    return ["canon " + h, "canon2 " + h]


def gen_canon_input(rng):
    r = rng.random()
    if r < 0.5:
        return gen_path(rng) + rng.choice(QUERIES) + rng.choice(FRAGS)
    if r < 0.8:   # not starting with '/', arbitrary text
        return rng.choice(SEGS) + gen_path(rng, 4) + rng.choice(QUERIES)
    n = rng.randrange(1, 9)
    return bytes(rng.choice(b"/.%2eE4aA?#\x80\xc3\xa9") for _ in range(n))


def build_cases(tier, rng, schemes):
    cases = []
    quick = tier == "quick"
    n_url = 2200 if quick else 120000
    for _ in range(n_url):
        r = rng.random()
        if r < 0.62:
            u = gen_url(rng, schemes)
        elif r < 0.82:
            u = gen_malformed(rng, schemes)
        else:
            u = gen_sized(rng, schemes)
        u = u.replace(b"\x00", b"\x01")
        cases.append(url_case(u))
    # UTF-8 matrix in the path, raw and escaped
    lm = lead_matrix()
    if quick:
        lm = rng.sample(lm, 500)
    for seq in lm:
        enc = rng.choice([0, 1, 2]) if quick else None
        for e, f in enumerate((lambda x: x, pct, pctl)):
            if enc is None or enc == e:
                cases.append(["parse " + hx(b"http://h/" + f(seq) + rng.choice([b"", b"x", b"/y"]))])
    for seq in UTF8_SEQS:
        cases.append(url_case(b"http://h/a" + pct(seq) + b"x"))
        cases.append(["parse " + hx(b"ws://h/" + seq)])
        cases.append(canon_case(b"/" + pctl(seq)))
    # every scheme and every proper prefix of every scheme
    for s in schemes:
        for k in range(len(s) + 1):
            cases.append(["parse " + hx(s[:k].encode() + b"://Host/p")])
        cases.append(url_case(s.encode() + b"://Host:81/a/../b?q#f"))
        cases.append(["parse " + hx(s.upper().encode() + b"://h/")])
    # exhaustive 1- and 2-byte paths (thorough), sampled in quick
    ones = [bytes([a]) for a in range(1, 256)]
    twos = [bytes([a, b]) for a in range(1, 256) for b in range(1, 256)]
    if quick:
        ones = rng.sample(ones, 120)
        twos = rng.sample(twos, 500)
    for p in ones + twos:
        cases.append(["parse " + hx(b"http://h/" + p), "canon " + hx(p)])
    # canonicaliser directly
    for _ in range(900 if quick else 60000):
        cases.append(canon_case(gen_canon_input(rng)))
    return cases


# ---------------------------------------------------------------- running
def run_script(binpath, prefix, cases, args=(), timeout=600):
    script = list(prefix)
    for k, c in enumerate(cases):
        script.append("mark %d" % k)
        script.extend(c)
    script.append("mark %d" % len(cases))
    rc, out, err = run_prog(binpath, "\n".join(script) + "\n", timeout=timeout, args=args)
    per = [[] for _ in cases]
    cur = -1
    for l in out:
        if l.startswith("mark "):
            cur = int(l.split()[1])
            continue
        if 0 <= cur < len(cases):
            per[cur].append(l)
    crash = None
    if rc != 0:
        crash = (min(max(cur, 0), len(cases) - 1), rc, err[-3000:])
    return per, crash


class Oracle:
    """answers of getservbyname, obtained from the implementation side's libc"""

    def __init__(self, impl):
        self.impl, self.ans = impl, {}

    def prefix(self):
        return ["svc %s %s" % (k, v) for k, v in sorted(self.ans.items())]

    def ask(self, names):
        names = [n for n in names if n not in self.ans]
        if not names:
            return
        rc, out, err = run_prog(self.impl, "\n".join("svc " + n for n in names) + "\n", timeout=120)
        for l in out:
            t = l.split()
            if len(t) == 3 and t[0] == "svc":
                self.ans[t[1]] = t[2]
        for n in names:
            self.ans.setdefault(n, "-")


def run_model(model, oracle, cases, args=()):
    for _ in range(4):
        per, crash = run_script(model, oracle.prefix(), cases, args=args)
        need = set()
        for ls in per:
            for l in ls:
                m = re.search(r" NEED-SVC=(\S+)", l)
                if m:
                    need.update(m.group(1).split(","))
        if not need:
            return per, crash
        oracle.ask(sorted(need))
    return per, crash


FIELD = re.compile(r"(\w+)=(\S+)")


def fields(line):
    """last occurrence wins except rv (first = the first parse)"""
    d = {}
    for k, v in FIELD.findall(line or ""):
        if k == "rv" and "rv" in d:
            continue
        d[k] = v
    return d


def split_authority(auth):
    """the property's reading of [userinfo@]host[:port] / [ipv6][:port];
    returns (userinfo|None, host, porttext|None) or None if ill-formed"""
    ui = None
    if b"@" in auth:
        ui, auth = auth.split(b"@", 1)
        if b"@" in auth:
            return None
    if auth.startswith(b"["):
        k = auth.find(b"]")
        if k < 0:
            return None
        host, rest = auth[1:k], auth[k + 1:]
        if rest == b"":
            return ui, host, None
        if not rest.startswith(b":"):
            return None
        return ui, host, rest[1:]
    if b":" in auth:
        host, port = auth.split(b":", 1)
        return ui, host, port
    return ui, auth, None


def c_lower(b):
    return bytes(c + 32 if 65 <= c <= 90 else c for c in b)


class SpecEval:
    """batched evaluation of the extracted spec predicates"""

    def __init__(self, model):
        self.model, self.cache = model, {}

    def eval(self, queries):
        todo = sorted(set(q for q in queries if q not in self.cache))
        if todo:
            rc, out, err = run_prog(self.model, "\n".join("spec " + q for q in todo) + "\n", timeout=600)
            for q, l in zip(todo, out):
                self.cache[q] = fields(l)
            for q in todo:
                self.cache.setdefault(q, {})

    def get(self, q):
        return self.cache.get(q, {})


def spec_queries(case, iout):
    qs = []
    for line, io in zip(case, iout):
        op, h = line.split()[:2]
        f = fields(io)
        if op == "parse" and f.get("rv") == "0":
            qs.append("input " + h)
            qs.append("path " + f.get("path", "-"))
            if f.get("host", "NULL") != "NULL":
                qs.append("host " + f["host"])
            for k in ("query", "fragment"):
                if f.get(k, "NULL") != "NULL":
                    qs.append("text " + f[k])
        if op in ("canon", "canon2") and f.get("rv") == "0" and "out" in f:
            qs.append("path_of " + f["out"])
    return qs


def judge(case, iout, mout, sp, oracle, ponly):
    """spec oracle on the implementation's observations of one case.
    Returns list of (text, key) -- key names the known defect this instance is
    an instance of (only when the pinned model predicts exactly this
    observation), None otherwise."""
    bad = []
    byop = {}
    for k, line in enumerate(case):
        op, h = line.split()[:2]
        io = iout[k] if k < len(iout) else None
        mo = mout[k] if k < len(mout) else None
        if io is None:
            bad.append(("no output for %s" % line[:80], None))
            continue
        byop[op] = (fields(io), io == re.sub(r" NEED-SVC=\S+", "", mo or ""), h)
    P = byop.get("parse")
    if P and P[0].get("rv") == "0":
        f, agrees, h = P
        raw = unhx(h)
        inp = sp.get("input " + h)
        sch = unhx(f.get("scheme", "-"))
        text = unhx(inp.get("scheme", "-")) or b""
        scheme_ok = inp.get("sep") == "1" and inp.get("known") == "1" and text == sch
        if not scheme_ok:
            key = "scheme-prefix" if (agrees and inp.get("sep") == "1" and sch.startswith(text) and len(text) < len(sch)) else None
            bad.append(("accepted although the text before '://' (%r) is not a known scheme (reported scheme %r)" % (text, sch), key))
        else:
            path = unhx(f.get("path", "-"))
            rest = unhx(inp.get("rest", "-")) or b""
            if sch.decode() in ponly:
                if path != rest:
                    bad.append(("path-only scheme: path differs from the text after '://'", None))
            else:
                auth = unhx(inp.get("auth", "-")) or b""
                sa = split_authority(auth)
                host = unhx(f.get("host", "NULL"))
                if sa is None:
                    bad.append(("accepted with an ill-formed authority %r" % auth, None))
                elif host is None:
                    bad.append(("accepted with a NULL host name", None))
                else:
                    ui, shost, sport = sa
                    if unhx(f.get("userinfo", "NULL")) != ui:
                        bad.append(("userinfo %r differs from the authority's %r" % (unhx(f.get("userinfo", "NULL")), ui), None))
                    if host != c_lower(shost):
                        bad.append(("host %r is not the lower-cased host text %r" % (host, shost), None))
                    if sp.get("host " + f["host"]).get("lower") != "1":
                        bad.append(("host %r is not lower case" % host, None))
                    if len(host) >= 256:
                        bad.append(("host name of %d bytes accepted (limit 255)" % len(host), None))
                    port = int(f.get("port", "-1"))
                    if sport is not None:
                        if sport == b"":
                            bad.append(("empty port accepted", None))
                        else:
                            pt = c_lower(sport)
                            sp.eval(["port " + hx(pt)])
                            num = sp.get("port " + hx(pt)).get("numeric", "-")
                            if num != "-":
                                if port != int(num):
                                    bad.append(("port %d but the port text %r reads %s" % (port, sport, num), None))
                            else:
                                oracle.ask([hx(pt)])
                                ans = oracle.ans.get(hx(pt), "-")
                                if ans == "-" or int(ans) != port:
                                    bad.append(("port text %r is neither a decimal 0..65535 nor a known service (resolver: %s), port %d reported" % (sport, ans, port), None))
                    if not (0 <= port <= 65535):
                        bad.append(("port %d out of range" % port, None))
                ps = sp.get("path " + f.get("path", "-"))
                if ps.get("ev") != "1":
                    bad.append(("path %r has a '%%' not followed by two hex digits" % path, None))
                elif ps.get("utf8") != "1":
                    bad.append(("accepted although the decoded path %r is not well-formed UTF-8" % path, "utf8-accumulate" if agrees else None))
                if ps.get("ev") == "1":
                    if ps.get("esc") != "1":
                        bad.append(("path %r keeps a lower-case or unreserved escape" % path, None))
                    if ps.get("dslash") != "1":
                        bad.append(("path %r contains //" % path, None))
                    if ps.get("dot") != "1":
                        bad.append(("path %r contains a dot segment" % path, None))
                if path and not path.startswith(b"/"):
                    bad.append(("path %r does not start with /" % path, None))
                for kf in ("query", "fragment"):
                    if f.get(kf, "NULL") != "NULL":
                        ts = sp.get("text " + f[kf])
                        if ts.get("ev") != "1":
                            bad.append(("%s %r has an invalid percent-escape" % (kf, unhx(f[kf])), None))
            # round trip and clone are demanded of every accepted URL
            R = byop.get("rt")
            if R:
                rf = R[0]
                if rf.get("rv2") != "0":
                    hostb = unhx(f.get("host", "NULL")) or b""
                    bad.append(("sprintf output is rejected by parse (rv %s)" % rf.get("rv2"),
                                "bracket-host-roundtrip" if (R[1] and hostb.startswith(b"[") and rf.get("rv2") == "3") else None))
                else:
                    for kf in ("scheme", "host", "port", "path", "query", "fragment"):
                        if rf.get(kf) != f.get(kf):
                            bad.append(("round trip changes %s: %r -> %r" % (kf, f.get(kf), rf.get(kf)), None))
            S = byop.get("sprintf")
            if S and S[0].get("rv") == "0":
                sf = S[0]
                if int(sf.get("len", "-1")) != len(unhx(sf.get("str", "-"))):
                    bad.append(("nng_url_sprintf returns %s for a string of %d bytes" % (sf.get("len"), len(unhx(sf.get("str", "-")))), None))
        C = byop.get("clone")
        if C:
            cf, cagrees, _ = C
            if cf.get("crv") != "0":
                heap = inp.get("sep") == "1" and len(raw) - len(text) >= 128
                bad.append(("nng_url_clone fails with rv %s on a URL of %d bytes" % (cf.get("crv"), len(raw)),
                            "clone-long" if (cagrees and heap and cf.get("crv") == "1") else None))
            else:
                cline = iout[case.index("clone " + h)] if ("clone " + h) in case else ""
                if "WILD-HOST" in cline:
                    bad.append(("the clone's host name pointer is wild (the original's is NULL): nng_url_clone of a %s:// URL" % sch.decode("latin-1"),
                                "clone-null-host" if (cagrees and f.get("host") == "NULL") else None))
                for kf in ("scheme", "userinfo", "host", "port", "path", "query", "fragment"):
                    if cf.get(kf) != f.get(kf):
                        bad.append(("clone differs in %s" % kf, None))
    # the canonicaliser on its own
    K = byop.get("canon")
    if K and K[0].get("rv") == "0" and "out" in K[0]:
        kf, agrees, h = K
        out = unhx(kf["out"])
        pp = re.split(rb"[?#]", out, 1)[0]
        sp.eval(["path " + hx(pp), "wf " + hx(out)])
        ps = sp.get("path " + hx(pp))
        if ps.get("ev") != "1" or ps.get("esc") != "1":
            bad.append(("canonify output %r keeps a non-canonical escape" % out, None))
        if ps.get("dslash") != "1":
            bad.append(("canonify output %r contains // in the path" % out, None))
        if ps.get("dot") != "1":
            bad.append(("canonify output %r contains a dot segment" % out, None))
        if sp.get("wf " + hx(out)).get("wf") != "1":
            bad.append(("canonify accepts %r which is not well-formed UTF-8" % out, "utf8-accumulate" if agrees else None))
        K2 = byop.get("canon2")
        if K2:
            k2 = K2[0]
            if k2.get("out") != kf.get("out") or "second" in (iout[1] if len(iout) > 1 else ""):
                bad.append(("canonify is not idempotent on %r: %r then %r" % (unhx(h), out, k2.get("out")), None))
    return bad


def split_case(lines):
    """a corpus / replay file may hold several inputs: one case per input"""
    res, cur, arg = [], [], None
    for l in lines:
        a = l.split()[1] if len(l.split()) > 1 else None
        if cur and a != arg:
            res.append(cur)
            cur = []
        cur.append(l)
        arg = a
    if cur:
        res.append(cur)
    return res


def load_extra_known(rep):
    p = os.environ.get("NNGV_EXTRA_KNOWN")
    if p and os.path.exists(p):
        for l in open(p):
            m = re.match(r"known:\s+property=(\w+)\s+key=(\S+)\s+(.*)", l.strip())
            if m and m.group(1) == PROP:
                rep.known[m.group(2)] = m.group(3)


def run(tier, seed, replay=None):
    rep = Report(PROP, tier, seed)
    load_extra_known(rep)
    ok, msg = gen_consts("c19")
    cb = coq_build("Properties_C19")
    gate = coq_gate()
    rep.proof_cov(cb, "make -C coq Props/Properties_C19.vo && coqc Props/Properties_C19.v (Print Assumptions) ; grep gate")
    proof_ok = ok and cb["ok"] and not gate
    model_build("url")
    bdir, err = nng_build("asan")
    if bdir is None:
        p = rep.replay_file("build_failed.txt", err)
        rep.violation(p, "nng does not build", nofail=True)
        return rep.finish()
    impl, err = wb_build(bdir, "wb_url.c")
    if impl is None:
        p = rep.replay_file("build_failed.txt", err)
        rep.violation(p, "white-box driver does not build against this tree", nofail=True)
        return rep.finish()
    # scratch builds under /tmp are evicted by concurrent runs: work on a private copy
    import shutil
    priv = os.path.join(rep.outdir, "wb_url.bin")
    shutil.copy2(impl, priv)
    impl = priv
    model = model_bin("modeld_url")
    schemes, ponly, flags = consts_tables()
    rng = random.Random(seed)
    if replay:
        cases = split_case([l.strip() for l in open(replay) if l.strip() and not l.startswith("#")])
    else:
        cases = [c for f in load_corpus(PROP) for c in split_case(f)] + build_cases(tier, rng, schemes)
    oracle = Oracle(impl)
    sp = SpecEval(model)
    nevals = 0
    hist_rv, hist_op, hist_len, known_counts = {}, {}, {}, {}
    distinct = set()
    diverged = []
    nviol = 0
    B = 1500
    for b0 in range(0, len(cases), B):
        batch = cases[b0:b0 + B]
        iout, crashed = [], set()
        start = 0
        while start < len(batch):
            part, crash = run_script(impl, [], batch[start:])
            if not crash:
                iout += part
                break
            ci, rc, errtxt = crash
            iout += part[:ci] + [[]]
            crashed.add(start + ci)
            nviol += 1
            if nviol <= 12:
                p = rep.replay_file("crash_%d.case" % (b0 + start + ci), "# implementation crashed (rc=%s)\n# %s\n" % (rc, errtxt.replace("\n", "\n# ")) + "\n".join(batch[start + ci]) + "\n")
                rep.violation(p, "implementation crashed / sanitizer report (rc=%s) on input %r" % (rc, unhx(batch[start + ci][0].split()[1])[:100]))
            start += ci + 1
        mout, mcrash = run_model(model, oracle, batch)
        qs = []
        for case, io in zip(batch, iout):
            qs += spec_queries(case, io)
        sp.eval([q for q in qs if not q.startswith("path_of")])
        for ci, case in enumerate(batch):
            il, ml = iout[ci], mout[ci]
            if ci in crashed:
                continue
            for k, line in enumerate(case):
                nevals += 1
                op = line.split()[0]
                hist_op[op] = hist_op.get(op, 0) + 1
                f = fields(il[k] if k < len(il) else "")
                if op in ("parse", "canon"):
                    hist_rv[(op, f.get("rv"))] = hist_rv.get((op, f.get("rv")), 0) + 1
                    n = (len(line.split()[1]) // 2) // 32 * 32
                    hist_len[n] = hist_len.get(n, 0) + 1
                    if f.get("rv") == "0":
                        distinct.add(line)
            verdict = judge(case, il, ml, sp, oracle, ponly)
            unknown = [(t, k) for t, k in verdict if k is None or k not in rep.known]
            for t, k in verdict:
                if k is not None and k in rep.known:
                    known_counts[k] = known_counts.get(k, 0) + 1
                    rep.violation(None, t, key=k)
            if unknown:
                nviol += 1
                if nviol <= 12:
                    t, k = unknown[0]
                    p = rep.replay_file("spec_%d.case" % (b0 + ci), "# %s\n# impl : %s\n# model: %s\n" % (
                        "\n# ".join(x for x, _ in unknown), " | ".join(il)[:1500], " | ".join(ml)[:1500]) + "\n".join(case) + "\n")
                    rep.violation(p, "implementation contradicts the C19 spec on %s : %s%s" % (
                        repr(unhx(case[0].split()[1]))[:160], t, (" [unlisted defect key=%s]" % k) if k else ""))
            else:
                for k, line in enumerate(case):
                    io = il[k] if k < len(il) else None
                    mo = re.sub(r" NEED-SVC=\S+", "", ml[k]) if k < len(ml) else None
                    if io != mo:
                        diverged.append((b0 + ci, k, line, io, mo))
                        break
    if diverged and not rep.violations:
        ci, k, line, io, mo = diverged[0]
        p = rep.replay_file("diverge_%d.case" % ci, "# model and implementation differ at op %d: %s\n# input: %r\n# impl : %s\n# model: %s\n# (correspondence of the URL model broken; %d cases diverge; the spec oracle found no violation)\n" % (
            k, line, unhx(line.split()[1]), io, mo, len(diverged)) + "\n".join(cases[ci]) + "\n")
        rep.violation(p, "correspondence UrlParseModel/CanonModel <-> url.c broken on %d cases; first: %r impl=%r model=%r" % (
            len(diverged), unhx(line.split()[1]), (io or "")[:200], (mo or "")[:200]), nofail=True)
    if not proof_ok and not rep.violations:
        proof_broken_report(rep, cb, "C19 theorems do not check (%s)" % ("; ".join(gate[:3]) if gate else msg if not ok else "see log"))
    rep.cov.update({
        "evaluations": nevals, "distinct_nontrivial": len(distinct),
        "rule": "grammar-based URLs (scheme incl. prefixes/case x userinfo x host forms incl. IPv6 x port forms x path segments from ., .., %2e, %2F, //, UTF-8 of every class raw and escaped x query x fragment), malformed stream (truncation, mutation, bad escapes), sizes 120-140 / 250-260 around the 128-byte inline buffer and the 256-byte host limit, lead-byte x continuation matrix, every scheme prefix, 1- and 2-byte paths (exhaustive in thorough), canonicaliser inputs; each run on the sanitised library and the extracted model; non-trivial = accepted input (rv 0); distinct = distinct accepted op lines",
        "samples": [cases[0][:2], cases[len(cases) // 2][:2]],
        "cases": len(cases), "op_histogram": hist_op,
        "rv_histogram": {"%s rv=%s" % k: v for k, v in sorted(hist_rv.items(), key=str)},
        "input_length_histogram": {str(k): v for k, v in sorted(hist_len.items())},
        "known_finding_instances": known_counts, "model_impl_divergences": len(diverged),
        "defect_flags_from_source": flags, "resolver_answers": dict(sorted(oracle.ans.items())[:20])})
    rep.assumptions += [
        "getservbyname is an oracle: its answers are read from the implementation side's libc and fed to the model",
        "allocation failure (unchecked nni_strdup) is not modelled here (C20)",
        "ctype functions are those of the C locale; isxdigit/tolower on bytes >= 0x80 behave as glibc's tables do (not hex, unchanged)",
        "the model stands in for the C: every buffer access goes through checked list primitives; the C itself is run under ASan/UBSan on exactly-sized heap copies of every input"]
    return rep.finish()
