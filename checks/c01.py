# C01 -- whole-message integrity on every transport, under any segmentation (DESIGN 5/C01)
#
# proof part : Props/Properties_C01.v (statements) over Codec/{Iov,SpFrame,Inproc}Model.v + C16's WebSocket models
# correspondence: harness/wb_c01.c (real library, ASan/UBSan) vs ocaml/drv_c01.ml (extracted models), same script
#   WB   : nni_aio_set_iov / nni_aio_iov_advance / nni_aio_iov_count; nni_msg_pull_up with a failing allocator
#   WIRE : an nng socket on one end of a tcp / ipc / socket-fd / ws / inproc connection, a raw descriptor driven by the
#          script on the other; receive-side cuts = writes separated by a pause (TCP_NODELAY), send-side partial writes =
#          small socket buffers + a slow reader.  What nng delivers / emits does not depend on whether the kernel merged
#          two pieces, so a merged cut can never raise an alarm (it only lowers the number of cuts realised).
# spec oracle (independent of the models): the messages the generator put into a stream are delivered exactly, in
#   order, each once -- a prefix of them when the stream was truncated; the bytes nng emits parse back (Python frame
#   parser) to exactly the messages sent.
import hashlib, random, re, resource, struct, subprocess, time
from concurrent.futures import ThreadPoolExecutor
from vlib import *

KNOWN_TEXT = {
    "pullup-enomem-loses-header": "nni_msg_pull_up ignores the result of nni_msg_insert: when the chunk has room for the "
                                  "header but less than 8 spare bytes and too little headroom, the insert allocates, and if "
                                  "that allocation fails the header is cleared anyway -- the message is delivered over inproc "
                                  "without its header bytes (truncated) instead of being dropped whole",
}


def hx(b):
    return b.hex() if b else "-"


def rbytes(rng, n):
    return bytes(rng.getrandbits(8) for _ in range(n)) if n < 4096 else rng.getrandbits(8 * n).to_bytes(n, "little")


# ------------------------------------------------------------------ source-derived tables
def proto_ids():
    """(self, peer) SP protocol numbers of the protocols the harness opens, read from the current source"""
    def macro(path, name):
        t = open(os.path.join(REPO, path)).read()
        m = re.search(r"#define\s+%s\s+NNI_PROTO\((\d+),\s*(\d+)\)" % name, t)
        if m:
            return int(m.group(1)) * 16 + int(m.group(2))
        m = re.search(r"#define\s+%s\s+(0x[0-9a-fA-F]+|\d+)" % name, t)
        return int(m.group(1), 0) if m else None
    tab = {}
    p0 = "src/sp/protocol/pair0/pair.c"
    tab["pair0"] = tab["pair0raw"] = (macro(p0, "NNI_PROTO_PAIR_V0"), macro(p0, "NNI_PROTO_PAIR_V0"))
    xr = "src/sp/protocol/reqrep0/xrep.c"
    tab["xrep"] = (macro(xr, "REP0_SELF"), macro(xr, "REP0_PEER"))
    pb = "src/sp/protocol/pubsub0/pub.c"
    tab["pubraw"] = tab["pub"] = (macro(pb, "NNI_PROTO_PUB_V0"), macro(pb, "NNI_PROTO_SUB_V0"))
    tab["sub"] = (macro(pb, "NNI_PROTO_SUB_V0"), macro(pb, "NNI_PROTO_PUB_V0"))
    pl = "src/sp/protocol/pipeline0/pull.c"
    tab["pull"] = (macro(pl, "NNI_PROTO_PULL_V0"), macro(pl, "NNI_PROTO_PUSH_V0"))
    p1 = "src/sp/protocol/pair1/pair.c"
    tab["pair1"] = (macro(p1, "PAIR1_SELF"), macro(p1, "PAIR1_PEER"))
    return tab


def pullup_checks_insert():
    """does nni_msg_pull_up of the tree under test look at the result of nni_msg_insert?  (same test as the
    gen_consts drop-in; read here as well because coq/Gen/Consts.v is shared with concurrently running checks)"""
    t = open(os.path.join(REPO, "src/core/message.c")).read()
    m = re.search(r"\nnni_msg_pull_up\(nni_msg \*m\)\s*\{.*?\n\}", t, re.S)
    if not m:
        return None
    b = m.group(0)
    return re.search(r"if\s*\(\s*\(?\s*(?:rv\s*=\s*)?nni_msg_insert\(", b) is not None or \
        re.search(r"rv\s*=\s*nni_msg_insert\([^;]*;\s*if\s*\(rv", b) is not None


# ------------------------------------------------------------------ framing (generator side)
def frame(tran, hdr, body):
    ln = struct.pack(">Q", len(hdr) + len(body))
    return (b"\x01" if tran == "ipc" else b"") + ln + hdr + body


def parse_frames(tran, wire):
    """independent parser of what nng emitted: list of payloads, or None"""
    out, off, hl = [], 0, (9 if tran == "ipc" else 8)
    while off < len(wire):
        if off + hl > len(wire):
            return None
        if tran == "ipc":
            if wire[off] != 1:
                return None
            ln = struct.unpack(">Q", wire[off + 1:off + 9])[0]
        else:
            ln = struct.unpack(">Q", wire[off:off + 8])[0]
        if off + hl + ln > len(wire):
            return None
        out.append(wire[off + hl:off + hl + ln])
        off += hl + ln
    return out


def sp_hdr(proto_id):
    return bytes([0, 0x53, 0x50, 0]) + struct.pack(">H", proto_id) + b"\0\0"


class Case:
    """one script line + what the generator knows about it (for the spec oracle)"""
    def __init__(self, tag, line, kind, expect=None, tran=None, complete=True):
        self.tag, self.line, self.kind = tag, line, kind
        self.expect = expect        # rx/inproc/ws: list of delivered bodies (bytes); tx: list of wire payloads
        self.tran = tran
        self.complete = complete    # the whole stream was sent (all of expect must arrive)
        self.nomodel = False        # too large for the extracted model: judged by the spec oracle alone
        self.lossy = False          # SUB with a short queue drops the oldest: deliveries are a subsequence


def cuts_str(cuts):
    return ",".join(str(c) for c in cuts) if cuts else "-"


IDS = {}


def rx_case(tag, tran, role, proto, msgs, cuts, negocuts=(), rcvmax=0, flags="-", trunc=None, hdrs=None):
    """msgs: list of wire payloads (what the raw peer frames); hdrs: for xrep, list of (hdr, body) expected"""
    stream = b"".join(frame(tran, b"", m) for m in msgs)
    expect = list(msgs)
    complete = True
    if trunc is not None:
        # cut the stream at trunc and close: only the complete frames before it may arrive
        full, off = [], 0
        for m in msgs:
            off += (9 if tran == "ipc" else 8) + len(m)
            if off <= trunc:
                full.append(m)
        stream, expect, complete = stream[:trunc], full, True
        flags = "c" + (flags if flags != "-" else "")
    self_id, peer_id = IDS[proto]
    line = "rx %s %s %s %d %s %s %s %s %d %s %d %d" % (
        tran, role, proto, rcvmax, hx(sp_hdr(peer_id)), cuts_str(negocuts), hx(stream), cuts_str(cuts), len(expect), flags,
        self_id, peer_id)
    c = Case(tag, line, "rx", expect=expect, tran=tran, complete=complete)
    c.hdrs = hdrs
    return c


def tx_case(tag, tran, role, proto, msgs, small=0, predelay=0, chunk=65536, pause=0):
    # pair0 does not touch the header in either mode: what the application put there travels in front of the body
    payloads = [h + b for h, b in msgs]
    total = sum((9 if tran == "ipc" else 8) + len(p) for p in payloads)
    line = "tx %s %s %s %d %s %d %d %d %d %d" % (
        tran, role, proto, small, ",".join("%s:%s" % (h.hex(), b.hex()) for h, b in msgs), predelay, chunk, pause, total,
        IDS[proto][0])
    return Case(tag, line, "tx", expect=payloads, tran=tran)


SIZES = [0, 1, 2, 3, 7, 8, 9, 10, 15, 16, 17, 31, 32, 33, 63, 64, 65, 100, 127, 128, 255, 256, 1000, 1023, 1024, 1025]
BIG = [4095, 4096, 4097, 8192, 16384, 65535, 65536, 65537, 70000]
TRANS = [("tcp", "l"), ("tcp", "d"), ("ipc", "l"), ("ipc", "d"), ("sfd", "l")]


def backtrace(rng, hops):
    """hops words without the high bit, then the request id with it"""
    out = b""
    for _ in range(hops):
        out += struct.pack(">I", rng.getrandbits(31))
    return out + struct.pack(">I", 0x80000000 | rng.getrandbits(31))


def gen_wire_cases(rng, tier):
    q = tier == "quick"
    cases = []
    # (1) small stream, every cut position and every pair of cut positions, every transport
    for tran, role in TRANS:
        msgs = [b"Hi", b"", b"\xff"] if tran != "ipc" else [b"Yo", b"", b"\x00"]
        n = sum((9 if tran == "ipc" else 8) + len(m) for m in msgs)
        for c in range(1, n):
            cases.append(rx_case("rx-cut1", tran, role, "pair0", msgs, [c]))
        pairs = [(a, b) for a in range(1, n) for b in range(a + 1, n)]
        if q:
            # all pairs on one transport per seed, a sample on the others
            pairs = pairs if (tran, role) == TRANS[rng.randrange(len(TRANS))] else rng.sample(pairs, 25)
        for a, b in pairs:
            cases.append(rx_case("rx-cut2", tran, role, "pair0", msgs, [a, b]))
        # the negotiation header cut at every position / every pair
        for c in range(1, 8):
            cases.append(rx_case("nego-cut1", tran, role, "pair0", [b"x"], [], negocuts=[c]))
        npairs = [(a, b) for a in range(1, 8) for b in range(a + 1, 8)]
        for a, b in (rng.sample(npairs, 5) if q else npairs):
            cases.append(rx_case("nego-cut2", tran, role, "pair0", [b"x"], [3], negocuts=[a, b]))
        # every byte its own piece
        cases.append(rx_case("rx-bytewise", tran, role, "pair0", msgs, list(range(1, n)), negocuts=list(range(1, 8))))
        # truncation at every offset, then EOF: complete messages only
        for t in (range(0, n) if not q else rng.sample(range(0, n), 8)):
            cases.append(rx_case("rx-trunc", tran, role, "pair0", msgs, [rng.randrange(1, n)], trunc=t, flags="w"))
    # (2) sizes 0..N, cuts aimed at the length prefix and at header/body boundaries
    nbig = 10 if q else 200
    for i in range(60 if q else 1500):
        tran, role = rng.choice(TRANS)
        hl = 9 if tran == "ipc" else 8
        nm = rng.choice([1, 1, 2, 3, 5])
        sz = SIZES + (BIG if i < nbig else [])
        msgs = [rbytes(rng, rng.choice(sz)) for _ in range(nm)]
        bounds, off = [], 0
        for m in msgs:
            bounds += [off + hl - 1, off + hl, off + hl + 1, off + hl + len(m) - 1, off + hl + len(m)]
            off += hl + len(m)
        cand = sorted(set(b for b in bounds if 0 < b < off))
        k = rng.choice([1, 2, 3, 6, 12])
        cuts = sorted(set(rng.sample(cand, min(k, len(cand))) + [rng.randrange(1, off) for _ in range(rng.choice([0, 1, 3]))]))
        cases.append(rx_case("rx-sized", tran, role, "pair0", msgs, cuts,
                             negocuts=sorted(set(rng.sample(range(1, 8), rng.choice([0, 0, 1, 2]))))))
    # (2b) NNG_OPT_RECVMAXSZ on the boundary: len = rcvmax is delivered, len = rcvmax + 1 closes the connection (nothing of it,
    # and nothing after it, is delivered)
    for i in range(15 if q else 200):
        tran, role = rng.choice(TRANS)
        lim = rng.choice([1, 2, 8, 9, 100, 1024])
        szs = [rng.choice([0, lim - 1, lim, lim, lim + 1, lim]) for _ in range(rng.choice([1, 2, 3]))]
        msgs = [rbytes(rng, max(0, z)) for z in szs]
        good = []
        for m in msgs:
            if len(m) > lim:
                break
            good.append(m)
        c = rx_case("rx-rcvmax", tran, role, "pair0", msgs, [rng.randrange(1, 9)], rcvmax=lim, flags="w")
        c.expect = good
        c.line = re.sub(r" (\d+) w (\d+) (\d+)$", " %d w \\2 \\3" % len(good), c.line)
        cases.append(c)
    # (2c) ipc: a frame whose type octet is not 1 ends the connection; what was complete before it is delivered, nothing after
    for i in range(6 if q else 60):
        role = rng.choice("ld")
        msgs = [rbytes(rng, rng.choice([0, 1, 5, 100])) for _ in range(rng.choice([1, 2, 3]))]
        k = rng.randrange(len(msgs))
        c = rx_case("rx-ipc-badtype", "ipc", role, "pair0", msgs, [rng.randrange(1, 10)], flags="w")
        st = b"".join((frame("ipc", b"", m) if j != k else bytes([rng.choice([0, 2, 255])]) + frame("ipc", b"", m)[1:])
                      for j, m in enumerate(msgs))
        t = c.line.split()
        t[7], t[9] = hx(st), str(k)
        c.line, c.expect = " ".join(t), msgs[:k]
        cases.append(c)
    # (2d) back-pressure: the peer sends k = 2..10 complete messages while the application is NOT receiving (it starts
    # 300 ms after the last byte); the protocol holds what its queue allows (RECVBUF 0 / 2 / default) and the transport must
    # neither lose, merge nor reorder what waits below it
    for i in range(30 if q else 400):
        tran, role = TRANS[i % len(TRANS)]
        proto = ["pair0", "pull", "sub", "pair1", "pair0", "pull"][(i // len(TRANS)) % 6]
        k = rng.choice([2, 3, 5, 8, 10])
        bodies = [rbytes(rng, rng.choice([0, 0, 1, 2, 10, 100, 1000] + ([70000] if i % 9 == 0 else []))) for _ in range(k)]
        fl = "p" + rng.choice(["z", "B", ""])
        hop = struct.pack(">I", 1)
        msgs = [hop + b for b in bodies] if proto == "pair1" else bodies
        c = rx_case("rx-backpressure", tran, role, proto, msgs, sorted(set(rng.randrange(1, 30) for _ in range(rng.choice([0, 1, 2])))),
                    flags=fl, hdrs=[(hop, b) for b in bodies] if proto == "pair1" else None)
        if proto == "sub" and "B" in fl:
            c.lossy, c.nomodel, c.complete = True, True, False
        cases.append(c)
    # (3) raw headers re-parsed by the receiving protocol (raw REP: backtrace words up to the request id)
    for i in range(20 if q else 300):
        tran, role = rng.choice(TRANS)
        hops = rng.choice([0, 1, 2, 3, 7])        # + the receiving hop <= ttl 8
        msgs, hdrs = [], []
        for _ in range(rng.choice([1, 2, 3])):
            h, b = backtrace(rng, hops), rbytes(rng, rng.choice([0, 1, 4, 5, 100]))
            msgs.append(h + b)
            hdrs.append((h, b))
        n = sum((9 if tran == "ipc" else 8) + len(m) for m in msgs)
        cuts = sorted(set(rng.randrange(1, n) for _ in range(rng.choice([1, 2, 4]))))
        cases.append(rx_case("rx-rawhdr", tran, role, "xrep", msgs, cuts, hdrs=hdrs))
    # (4) send direction: headers 0..64 bytes through a raw socket, sizes 0..N
    hlens = list(range(0, 65, 4)) + [1, 2, 3, 5, 63]
    for i in range(50 if q else 800):
        tran, role = rng.choice(TRANS)
        proto = rng.choice(["pair0raw", "pair0raw", "pair0"])
        nm = rng.choice([1, 2, 3, 6])
        msgs = [(rbytes(rng, rng.choice(hlens)), rbytes(rng, rng.choice(SIZES + (BIG if i < nbig else [])))) for _ in range(nm)]
        cases.append(tx_case("tx-sized", tran, role, proto, msgs, chunk=rng.choice([1, 3, 7, 8, 9, 100, 65536])))
    # (5) partial writes: small socket buffers, a reader that starts late and reads slowly.  Sizes measured to exceed what
    # the kernel buffers (socketpair with SO_SNDBUF shrunk: > 50 kB; unix socket: > 212992; loopback TCP: > ~1.5 MB, so the
    # TCP cases are too large for the extracted model and are judged by the spec oracle alone)
    plan = [("sfd", "l", 60000), ("sfd", "l", 130000), ("ipc", "l", 300000), ("ipc", "d", 300000), ("tcp", "l", 3000000),
            ("tcp", "d", 3000000)]
    for i in range(6 if q else 36):
        tran, role, big = plan[i % len(plan)]
        msgs = [(rbytes(rng, rng.choice([0, 8, 64])), rbytes(rng, big + rng.randrange(0, 9))), (b"", b"tail")]
        c = tx_case("tx-partial", tran, role, "pair0raw", msgs, small=1, predelay=30000,
                    chunk=rng.choice([4096, 30000, 65536]), pause=rng.choice([0, 100]))
        c.nomodel = tran == "tcp"
        cases.append(c)
    return cases


def gen_ws_cases(rng, tier, wsframe):
    q = tier == "quick"
    cases = []
    for role in "ld":
        masked = role == "l"
        # one message in three fragments + a ping in between, every cut position
        m = b"Hello, SP"
        frs = [wsframe(2, False, m[:3], masked, rbytes(rng, 4)), wsframe(9, True, b"p", masked, rbytes(rng, 4)),
               wsframe(0, False, m[3:4], masked, rbytes(rng, 4)), wsframe(0, True, m[4:], masked, rbytes(rng, 4)),
               wsframe(2, True, b"", masked, rbytes(rng, 4))]
        s = b"".join(frs)
        for c in range(1, len(s), 2 if q else 1):
            cases.append(Case("ws-cut1", "wsrx %s 0 %s %d 2 -" % (role, hx(s), c), "wsrx", expect=[m, b""]))
        for i in range(12 if q else 300):
            msgs, out = [], b""
            for _ in range(rng.choice([1, 2, 3])):
                d = rbytes(rng, rng.choice(SIZES + [65535, 65536, 70000] if i < 3 else SIZES))
                nf = rng.choice([1, 1, 2, 3])
                pts = sorted(rng.randrange(0, len(d) + 1) for _ in range(nf - 1))
                parts = [d[a:b] for a, b in zip([0] + pts, pts + [len(d)])]
                for k, p in enumerate(parts):
                    out += wsframe(2 if k == 0 else 0, k == len(parts) - 1, p, masked, rbytes(rng, 4))
                msgs.append(d)
            cuts = sorted(set(rng.randrange(1, len(out)) for _ in range(rng.choice([0, 1, 2, 5]))))
            cases.append(Case("ws-rx", "wsrx %s 0 %s %s %d -" % (role, hx(out), cuts_str(cuts), len(msgs)), "wsrx", expect=msgs))
        # the frame-length encodings' boundaries, as whole frames (7-bit / 16-bit / 64-bit length forms)
        for total in (125, 126, 127, 65535, 65536):
            for hl in (0, 4):
                if total > 1000 and hl == 4 and q:
                    continue
                h, b = rbytes(rng, hl), rbytes(rng, total - hl)
                cases.append(Case("ws-tx-boundary", "wstx %s 0 %s 1" % (role, "%s:%s" % (h.hex(), b.hex())), "wstx", expect=[h + b]))
        # back-pressure over ws (message mode): k complete messages, some fragmented, arrive while nobody receives
        for i in range(8 if q else 150):
            proto = ["pair0", "pull", "sub", "pair0"][i % 4]
            k = rng.choice([2, 3, 5, 8, 10])
            szs = [0, 0, 1, 10, 20, 80, 125, 126, 127, 1000] + ([65535, 65536] if i % 4 == 1 else [])
            msgs, out = [], b""
            for _ in range(k):
                d = rbytes(rng, rng.choice(szs))
                nf = rng.choice([1, 1, 1, 2, 3])
                pts = sorted(rng.randrange(0, len(d) + 1) for _ in range(nf - 1))
                parts = [d[a:b] for a, b in zip([0] + pts, pts + [len(d)])]
                for j, p in enumerate(parts):
                    out += wsframe(2 if j == 0 else 0, j == len(parts) - 1, p, masked, rbytes(rng, 4))
                msgs.append(d)
            fl = "p" + rng.choice(["z", "B", ""])
            c = Case("ws-backpressure", "wsrx %s 0 %s - %d %s %s" % (role, hx(out), len(msgs), fl, proto), "wsrx", expect=msgs)
            if proto == "sub" and "B" in fl:
                c.lossy, c.nomodel, c.complete = True, True, False
            cases.append(c)
        for i in range(10 if q else 200):
            fs = rng.choice([0, 0, 1, 4, 125, 126, 1000])
            msgs = [(rbytes(rng, rng.choice([0, 4, 8, 64])), rbytes(rng, rng.choice(SIZES + ([65535, 65536, 70000] if i < 2 else []))))
                    for _ in range(rng.choice([1, 2, 3]))]
            eff = fs if fs else 65536
            nfr = sum(max(1, -(-(len(h) + len(b)) // eff)) for h, b in msgs)
            if nfr > 3000:
                continue
            cases.append(Case("ws-tx", "wstx %s %d %s %d" % (role, fs, ",".join("%s:%s" % (h.hex(), b.hex()) for h, b in msgs), nfr),
                              "wstx", expect=[h + b for h, b in msgs]))
    return cases


def gen_inproc_cases(rng, tier):
    q = tier == "quick"
    cases = []
    hlens = list(range(0, 65, 4)) + [1, 63]
    for i in range(40 if q else 600):
        mode = rng.choice(["pair", "pairi", "pub2"])
        msgs = [(rbytes(rng, rng.choice(hlens)), rbytes(rng, rng.choice(SIZES + [2047, 2048, 2049])))
                for _ in range(rng.choice([1, 2, 3, 8]))]
        cases.append(Case("inproc-" + mode, "inproc %s %s" % (mode, ",".join("%s:%s" % (h.hex(), b.hex()) for h, b in msgs)),
                          "inproc", expect=[h + b for h, b in msgs]))
    # back-pressure over inproc: a thread sends, the receiver starts 300 ms later
    for i in range(6 if q else 80):
        mode = ["pair", "push"][i % 2]
        msgs = [(rbytes(rng, rng.choice([0, 4, 8, 64])) if mode == "pair" else b"", rbytes(rng, rng.choice(SIZES)))
                for _ in range(rng.choice([2, 3, 5, 10]))]
        cases.append(Case("inproc-backpressure", "inprocbp %s %d %s" % (mode, rng.choice([0, 0, 2]),
                          ",".join("%s:%s" % (h.hex(), b.hex()) for h, b in msgs)), "inproc", expect=[h + b for h, b in msgs]))
    return cases


def gen_wb_cases(rng, tier):
    q = tier == "quick"
    cases = []
    for i in range(300 if q else 20000):
        n = rng.choice([0, 1, 1, 2, 3, 3, 4, 8, 8, rng.randrange(0, 9)])
        ents, off = [], 0
        for _ in range(n):
            ln = rng.choice([0, 0, 1, 2, 7, 8, 9, 64, 100, 4096])
            if ln == 0 and rng.random() < 0.4:
                ents.append("-:0")
            else:
                ents.append("%d:%d" % (off, ln))
            off += ln + rng.choice([0, 0, 5])
        lens = [int(e.split(":")[1]) for e in ents]
        tot, advs = sum(lens), []
        # advance amounts aimed at entry boundaries (exactly, one less, one more), never beyond the total
        left = tot
        bounds = []
        acc = 0
        for l in lens:
            acc += l
            bounds.append(acc)
        pos = 0
        for _ in range(rng.choice([1, 2, 3, 6, 10])):
            if left == 0:
                advs.append(0)
                continue
            tgt = rng.choice([b for b in bounds if b > pos] + [pos + 1]) + rng.choice([-1, 0, 0, 1])
            a = max(0, min(left, tgt - pos)) if rng.random() < 0.8 else rng.randrange(0, left + 1)
            advs.append(a)
            pos += a
            left -= a
        cases.append(Case("iov", "iov %s %s" % (",".join(ents) or "-", cuts_str(advs)), "iov"))
    for nent in (9, 12):
        cases.append(Case("iov", "iov %s -" % ",".join("0:1" for _ in range(nent)), "iov"))
    # pull-up: capacity / headroom / sharing cases, every allocation of it made to fail in turn
    for i in range(150 if q else 4000):
        bl = rng.choice([0, 1, 8, 19, 20, 21, 24, 25, 31, 32, 33, 40, 100, 1000, 1023, 1024, 1025, 2048])
        hl = rng.choice(list(range(0, 65, 4)) + [33, 39, 41, 63])
        sh = rng.choice([0, 0, 1])
        fk = rng.choice([-1, -1, 0, 1])
        cases.append(Case("pullup", "pullup %s %s %d %d" % (hx(rbytes(rng, bl)), hx(rbytes(rng, hl)), sh, fk), "pullup",
                          expect=(rbytes, bl, hl, sh, fk)))
    # the recorded finding with its reproducer
    cases.append(Case("pullup", "pullup %s %s 0 0" % ("09" * 20, "07" * 40), "pullup", expect=None))
    return cases


# ------------------------------------------------------------------ running
def _unlimit_stack():
    try:
        resource.setrlimit(resource.RLIMIT_STACK, (resource.RLIM_INFINITY, resource.RLIM_INFINITY))
    except Exception:
        pass


def run_script(binpath, lines, timeout, args=()):
    script = []
    for k, l in enumerate(lines):
        script.append("mark %d" % k)
        script.append(l)
    script.append("mark %d" % len(lines))
    try:
        p = subprocess.run([binpath] + list(args), input="\n".join(script) + "\n", capture_output=True, text=True,
                           timeout=timeout, env=dict(os.environ, **ASAN_ENV), preexec_fn=_unlimit_stack)
        rc, out, err = p.returncode, p.stdout.splitlines(), p.stderr
    except subprocess.TimeoutExpired as ex:
        out = ex.stdout.decode() if isinstance(ex.stdout, bytes) else (ex.stdout or "")
        rc, out, err = -9, out.splitlines(), "TIMEOUT"
    per = [[] for _ in lines]
    cur = -1
    for l in out:
        if l.startswith("mark "):
            cur = int(l.split()[1])
            continue
        if 0 <= cur < len(lines):
            per[cur].append(l)
    crash = None
    if rc != 0:
        crash = (min(max(cur, 0), len(lines) - 1), rc, err[-3000:])
    return per, crash


def run_parallel(binpath, lines, workers, timeout, args=()):
    outs = [None] * len(lines)
    crashes = []
    # deal the cases so that every worker gets a similar mix; big lines spread out
    buckets = [list(range(w, len(lines), workers)) for w in range(workers)]

    def work(w):
        idx = buckets[w]
        if not idx:
            return
        per, crash = run_script(binpath, [lines[i] for i in idx], timeout, args)
        for j, i in enumerate(idx):
            outs[i] = per[j]
        if crash:
            crashes.append((idx[crash[0]], crash[1], crash[2]))

    with ThreadPoolExecutor(max_workers=workers) as ex:
        list(ex.map(work, range(workers)))
    return [o or [] for o in outs], crashes


def strip_diag(lines):
    return [l for l in lines if not l.startswith("diag")]


def unhx(s):
    return b"" if s == "-" else bytes.fromhex(s)


def spec_check(case, out):
    """the abstract property on the implementation's observations; returns None or a description"""
    out = strip_diag(out)
    if any(l.startswith("sigpipe") for l in out):
        return "SIGPIPE raised in the application thread"
    if any(l.startswith("fail") or l.startswith("badcmd") for l in out):
        return "harness could not set the connection up: " + " | ".join(out)[:200]
    k = case.kind
    if k in ("rx", "wsrx", "inproc"):
        got = []
        subs = None
        for l in out:
            if l.startswith("sub "):
                if subs is None:
                    subs = []
                subs.append([])
                continue
            m = re.match(r"rx hdr=(\S+) body=(\S+)", l)
            if m:
                h, b = m.group(1), unhx(m.group(2))
                if getattr(case, "hdrs", None) is not None:
                    # raw REP: header = pipe id + the backtrace, body = the rest; PAIRv1: header = the hop count
                    item = (unhx(h[2:]) if h.startswith("P:") else unhx(h), b)
                else:
                    item = b if h == "-" else None
                (subs[-1] if subs is not None else got).append(item)
        lists = subs if subs is not None else [got]
        exp = case.expect if getattr(case, "hdrs", None) is None else case.hdrs
        if case.lossy:
            for g in lists:
                k = 0
                for a in g:
                    while k < len(exp) and exp[k] != a:
                        k += 1
                    if k == len(exp):
                        return "delivered a message that was not sent, or out of order, or a merged / split one"
                    k += 1
            return None
        for g in lists:
            if len(g) > len(exp):
                return "more messages delivered than were sent (%d > %d): duplicated or split" % (len(g), len(exp))
            for i, (a, b) in enumerate(zip(g, exp)):
                if a != b:
                    return "message %d delivered altered/truncated/merged (%d bytes delivered, %d sent)" % (
                        i, len(a) if isinstance(a, bytes) else -1, len(b) if isinstance(b, bytes) else -1)
            if case.complete and len(g) < len(exp):
                return "only %d of %d messages of an intact connection were delivered" % (len(g), len(exp))
        return None
    if k == "tx":
        w = [l for l in out if l.startswith("wire ")]
        if not w:
            return "no byte stream captured"
        fr = parse_frames(case.tran, unhx(w[0][5:]))
        if fr is None:
            return "emitted bytes are not a sequence of complete frames"
        if fr != case.expect:
            return "emitted frames are not the messages sent (%d frames for %d messages)" % (len(fr), len(case.expect))
        return None
    if k == "wstx":
        msgs, cur, started = [], b"", False
        for l in out:
            m = re.match(r"wsframe op=(\d+) fin=(\d) masked=(\d) rsv=(\d) payload=(\S+)", l)
            if not m:
                continue
            op, fin = int(m.group(1)), m.group(2) == "1"
            if op in (1, 2):
                if started:
                    return "data frame inside a fragmented message"
                cur, started = unhx(m.group(5)), True
            elif op == 0:
                if not started:
                    return "continuation frame without a start"
                cur += unhx(m.group(5))
            else:
                continue
            if fin:
                msgs.append(cur)
                cur, started = b"", False
        if started:
            return "unterminated fragmented message"
        if msgs != case.expect:
            return "frames emitted do not reassemble to the messages sent"
        return None
    if k == "pullup":
        m = re.match(r"pullup hdr=(\S+) body=(\S+)", out[0]) if out else None
        if out and out[0] == "pullup none":
            return None           # dropped whole
        if not m:
            return "pull-up produced no observation"
        t = case.line.split()
        want = unhx(t[2]) + unhx(t[1])
        if m.group(1) != "-" or unhx(m.group(2)) != want:
            return KNOWN_TEXT["pullup-enomem-loses-header"] if unhx(m.group(2)) == unhx(t[1]) else \
                "pull-up result is not header ++ body"
        return None
    return None


def run(tier, seed, replay=None):
    rep = Report("C01", tier, seed)
    if os.environ.get("NNGV_C01_ASSUME_KNOWN"):      # development aid: treat the findings of KNOWN_TEXT as recorded
        for k, v in KNOWN_TEXT.items():
            rep.known.setdefault(k, v)
    t_start = time.time()

    def lap(what):
        if os.environ.get("NNGV_TIMING"):
            print("  [%6.1fs] %s" % (time.time() - t_start, what))
    # coq/Gen/Consts.v is shared with concurrently running checks (possibly of another tree): build, then make sure the
    # constants the proofs were checked against are still the ones of the tree under test; otherwise once more
    for _attempt in range(3):
        ok, msg = gen_consts("c01")
        cb = coq_build("Properties_C01")
        rc, o, e = sh([sys.executable, os.path.join(VERIF, "tools", "gen_consts.py")], timeout=120)
        if "Consts.v updated" not in o:
            break
    gate = coq_gate()
    rep.proof_cov(cb, "make -C coq Props/Properties_C01.vo && coqc Props/Properties_C01.v (Print Assumptions) ; grep gate")
    proof_ok = ok and cb["ok"] and not gate
    lap("coq")
    model_build("c01")
    bdir, err = nng_build("asan")
    if bdir is None:
        p = rep.replay_file("build_failed.txt", err)
        rep.violation(p, "nng does not build", nofail=True)
        return rep.finish()
    impl, err = wb_build(bdir, "wb_c01.c")
    if impl is None:
        p = rep.replay_file("build_failed.txt", err)
        rep.violation(p, "white-box driver does not build against the current tree", nofail=True)
        return rep.finish()
    model = model_bin("modeld_c01")
    lap("builds")
    IDS.clear()
    IDS.update(proto_ids())
    if any(v is None or None in v for v in IDS.values()):
        p = rep.replay_file("proto_ids.txt", repr(IDS))
        rep.violation(p, "protocol numbers no longer found in the source", nofail=True)
        return rep.finish()
    rng = random.Random(seed)
    q = tier == "quick"
    import c16 as _c16
    if replay:
        cases = []
        for l in open(replay):
            l = l.strip()
            if l and not l.startswith("#"):
                cases.append(Case("replay", l, l.split()[0], expect=None))
                cases[-1].complete = False
    else:
        cases = [Case("corpus", c[0], c[0].split()[0]) for c in load_corpus("C01") if c]
        for c in cases:
            c.complete = False
        cases += gen_wb_cases(rng, tier)
        cases += gen_wire_cases(rng, tier)
        cases += gen_ws_cases(rng, tier, _c16.ws_frame)
        cases += gen_inproc_cases(rng, tier)
    lines = [c.line for c in cases]
    gap = "1200" if q else "2500"
    # white-box cases are cheap: one process; wire cases in parallel
    wire_idx = [i for i, c in enumerate(cases) if c.kind not in ("iov", "pullup")]
    wb_idx = [i for i, c in enumerate(cases) if c.kind in ("iov", "pullup")]
    iout = [None] * len(cases)
    crashes = []
    o, cr = run_parallel(impl, [lines[i] for i in wb_idx], 1, 600, args=(gap,))
    for j, i in enumerate(wb_idx):
        iout[i] = o[j]
    crashes += [(wb_idx[a], b, c) for a, b, c in cr]
    o, cr = run_parallel(impl, [lines[i] for i in wire_idx], 6, 900 if q else 3000, args=(gap,))
    for j, i in enumerate(wire_idx):
        iout[i] = o[j]
    crashes += [(wire_idx[a], b, c) for a, b, c in cr]
    lap("impl run")
    chk = pullup_checks_insert()
    mout, mcr = run_parallel(model, [("# skipped" if c.nomodel else c.line) for c in cases], 6, 900 if q else 3000,
                             args=("--chk=%d" % (1 if chk else 0),))
    lap("model run")
    for idx, rc, errtxt in mcr:
        p = rep.replay_file("model_crash_%d.case" % idx, "# rc=%s %s\n%s\n" % (rc, errtxt[-500:].replace("\n", " "), lines[idx]))
        rep.violation(p, "model driver failed (rc=%s) near case: %s" % (rc, lines[idx][:100]), nofail=True)

    hist, distinct, classes = {}, set(), set()
    pending_seen = 0
    diverged = []

    def viol(name, idx, text, io, key=None, nofail=False):
        c = cases[idx]
        p = rep.replay_file("%s_%d.case" % (name, idx), "# %s\n# impl : %s\n# model: %s\n%s\n" % (
            text, " | ".join(io)[:800], " | ".join(mout[idx])[:800], c.line))
        rep.violation(p, text + " [" + c.tag + ": " + c.line[:110] + ("..." if len(c.line) > 110 else "") + "]",
                      nofail=nofail, key=key)

    for idx, rc, errtxt in crashes:
        p = rep.replay_file("crash_%d.case" % idx, "# rc=%s\n# %s\n%s\n" % (rc, errtxt.replace("\n", "\n# "), lines[idx]))
        rep.violation(p, "implementation crashed / sanitizer report (rc=%s: %s) near case: %s" % (rc, san_summary(errtxt), lines[idx][:100]))

    def rerun(idx, g):
        per, cr = run_script(impl, [lines[idx]], 120, args=(g,))
        return per[0], cr

    for idx, c in enumerate(cases):
        io = iout[idx]
        if io is None or (not io and any(idx == x[0] for x in crashes)):
            continue
        hist[c.tag] = hist.get(c.tag, 0) + 1
        pending_seen += sum(1 for l in io if l == "diag pending=1" and c.tag == "tx-partial")
        bad = spec_check(c, io) if (c.expect is not None or c.kind in ("pullup",)) else None
        same = c.nomodel or strip_diag(io) == mout[idx]
        if (bad or not same) and c.kind not in ("iov", "pullup"):
            # real-time effects (a loaded machine, a late wake-up) must not raise an alarm: the case is repeated
            # alone, twice, with longer pauses; only what persists is reported
            for g in ("4000", "12000"):
                io2, cr2 = rerun(idx, g)
                if cr2:
                    break
                bad2 = spec_check(c, io2) if c.expect is not None else None
                same2 = c.nomodel or strip_diag(io2) == mout[idx]
                if not bad2 and same2:
                    bad, same, io = None, True, io2
                    rep.cov["retried_ok"] = rep.cov.get("retried_ok", 0) + 1
                    break
                io, bad, same = io2, bad2, same2
        if bad:
            key = "pullup-enomem-loses-header" if bad == KNOWN_TEXT["pullup-enomem-loses-header"] else None
            viol("spec", idx, "C01 violated: " + bad, io, key=key)
            continue
        if not same:
            diverged.append((idx, io))
            continue
        distinct.add((c.kind, hashlib.sha1(c.line.encode()).hexdigest()))
        classes.add((c.tag, len(io)))
    lap("compare")
    if diverged and not rep.violations:
        idx, io = diverged[0]
        viol("diverge", idx, "correspondence model <-> code broken on %d cases (the spec oracle found no violation); first" % len(diverged),
             io, nofail=True)
    if not proof_ok and not rep.violations:
        proof_broken_report(rep, cb, "C01 theorems do not check (%s)" % ("; ".join(gate[:3]) if gate else msg if not ok else "see log"))
    rep.cov.update({
        "evaluations": len(cases), "distinct_nontrivial": len(distinct),
        "rule": "one case = one script line (a byte stream with its cuts / a message list with its read plan / an iov vector with "
                "its advances / a pull-up with its failing allocation) run on the real library (ASan/UBSan) and on the extracted "
                "models; distinct = distinct lines on which both agree and the spec oracle holds",
        "samples": [lines[0][:200], lines[len(lines) // 2][:200], lines[-1][:200]],
        "case_histogram": hist, "outcome_classes": len(classes),
        "model_impl_divergences": len(diverged),
        "tx_partial_cases_with_send_still_pending_when_reader_started": pending_seen,
        "tx_partial_cases": hist.get("tx-partial", 0), "cases_judged_by_spec_oracle_only": sum(1 for c in cases if c.nomodel),
        "transports": ["tcp (listen, dial)", "ipc (listen, dial)", "socket:// (socketpair)", "ws (listen, dial)", "inproc"],
    })
    rep.assumptions += [
        "receive-side cuts are realised by pauses between writes (TCP_NODELAY); a cut merged by the kernel lowers coverage, it cannot "
        "raise an alarm (observations do not depend on the segmentation); no read/write clamp hook (H1) is used",
        "send-side partial writes are provoked by small socket buffers and a late, slow reader; where they fall is not controlled",
        "the inproc queue model is compared at socket level (pair0 / pub-sub over inproc), not per queue operation",
        "allocation failure inside nni_msg_pull_up is exercised white-box only (thread-local failing allocator)",
        "OS: that readv/sendmsg return what the kernel says is observed, not proved",
    ]
    return rep.finish()
