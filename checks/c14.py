# C14 -- pipe events are ordered; dialers redial, listeners keep accepting (DESIGN 5/C14)
#
# 1. scripted, deterministic: harness/wb_pipeev.c (public API + the deterministic transport with a
#    dialer and a listener, hooks H2q/H4) against ocaml/drv_c14.ml (the extracted models), line by
#    line; the oracle below evaluates the property's words on the implementation's own lines.
# 2. real transports (tcp, ipc, inproc), real schedules: `wb_pipeev real|redial|hostile`; only the
#    oracle, on the log of pipe-notify callbacks / attempts seen by a raw listener / success of a
#    well-behaved control client.
# Real-time effects (a timer that fires in real time before the script advances the virtual
# clock) never raise an alarm: such lines are recognised and the rest of the case is skipped.
import concurrent.futures, os, random, re, subprocess, time
from vlib import *

KEY_MID = None      # (both dialer back-off findings were repaired in /repo: 2107908, 4a05a49 -- no known-finding keys)
KEY_OVF = None
KEY_WLEAK = None     # waitpipes leak on endpoint close: repaired in /repo 6fda216 (tcp.c, ipc.c) -- fires unkeyed if it returns
KEY_RACE = None      # tear-down overtaking start-up (use-after-free): repaired in /repo 91744d5
KEY_DLEAK = None     # connection leaked when a tcp dialer closes as its connect completes: cause (late abort overwriting the
                     # result) repaired in /repo e9a11c8


KEY_SFDQ = "sfd-listen-queue-shift"       # sockfd.c sfd_start_conn shifts listen_q[i] = listen_q[i + 1]: slot 0 kept, slot 1 lost
KEY_SFDC = "sfd-listen-close-twice"       # sockfd.c sfd_listener_close leaves listen_cnt: stop closes the queued descriptors again


# ------------------------------------------------------------------ socket-fd listener hand-over queue (src/core/sockfd.c)
SFD_CAP = 16


def gen_sfdq(rng):
    L, nf, na, waiting = [], 0, 0, []
    shape = rng.choice(["fds_first", "accepts_first", "mixed", "mixed", "full"])

    def setfd():
        nonlocal nf
        if nf < 46:
            L.append("setfd f%d" % nf)
            nf += 1

    def accept():
        nonlocal na
        if na < 46:
            L.append("accept a%d" % na)
            waiting.append(na)
            na += 1
    if shape == "fds_first":
        for _ in range(rng.choice([1, 2, 3, 5, 8, 15, 16, 17, 18])):
            setfd()
        for _ in range(rng.randrange(0, 20)):
            accept()
    elif shape == "accepts_first":
        for _ in range(rng.randrange(1, 6)):
            accept()
        if rng.random() < 0.4 and waiting:
            L.append("cancel a%d" % rng.choice(waiting))
        for _ in range(rng.randrange(0, 22)):
            setfd()
        for _ in range(rng.randrange(0, 6)):
            accept()
    elif shape == "full":
        for _ in range(SFD_CAP + rng.randrange(0, 3)):
            setfd()
        for _ in range(rng.randrange(0, 4)):
            accept()
            setfd()
        for _ in range(rng.randrange(0, SFD_CAP + 2)):
            accept()
    else:
        for _ in range(rng.randrange(4, 40)):
            r = rng.random()
            if r < 0.5:
                setfd()
            elif r < 0.9:
                accept()
            elif waiting:
                L.append("cancel a%d" % rng.choice(waiting))
            else:
                L.append("poll")
    if rng.random() < 0.8:
        L.append("close")
        if rng.random() < 0.7:
            L.append("probe")
        if rng.random() < 0.8:
            L.append(rng.choice(["stop", "close"]))
        for _ in range(rng.randrange(0, 3)):
            if rng.random() < 0.5:
                setfd()
            else:
                accept()
    L.append("poll")
    return L


SFDL = re.compile(r"^rv=(\d+)( NOT-QUIESCENT)? done=(\S+) fds=(\S+)(?: probe=([oc]))?$")


def sfdq_oracle(case, out):
    """the property's words on the implementation's own lines: every descriptor the listener took over is handed to
    exactly one accept, in the order taken, or closed by the listener; nothing else is closed.  None or (i, key, text)"""
    took, delivered, closed = [], [], set()
    for i, line in enumerate(case):
        m = SFDL.match(out[i]) if i < len(out) else None
        if m is None:
            return (i, None, "no/odd observation %r" % (out[i] if i < len(out) else None))
        t = line.split()
        rv, done, fds, probe = int(m.group(1)), m.group(3), m.group(4), m.group(5)
        if t[0] == "setfd" and rv == 0:
            took.append(int(t[1][1:]))
        if t[0] == "setfd" and rv not in (0, 7, 22):
            return (i, None, "NNG_OPT_SOCKET_FD returned %d" % rv)
        st = {} if fds == "-" else {int(x.split(":")[0][1:]): x.split(":")[1] for x in fds.split(",")}
        for x in ([] if done == "-" else done.split(",")):
            f = x.split(":")
            if f[1] != "0":
                continue
            pair = int(f[2][1:])
            if pair in delivered:
                return (i, KEY_SFDQ, "descriptor f%d handed to a second accept (%s)" % (pair, f[0]))
            if pair not in took:
                return (i, KEY_SFDQ, "accept %s got a descriptor (tag %d) the listener was never given" % (f[0], pair))
            earlier = [p for p in took[:took.index(pair)] if p not in delivered and p not in closed and st.get(p, "q")[0] != "c"]
            if earlier:
                return (i, KEY_SFDQ, "descriptor f%d handed out while f%d, taken over earlier, is still waiting" % (pair, earlier[0]))
            delivered.append(pair)
        for p, s in st.items():
            if s[0] == "c":
                if p in delivered:
                    return (i, KEY_SFDC, "descriptor f%d was closed by the listener after it had been handed to an accept" % p)
                closed.add(p)
        if probe == "c":
            return (i, KEY_SFDC, "the listener closed a descriptor it does not own (opened by the application after nng_stream_listener_close)")
        if t[0] in ("close", "stop") or ("close" in [l.split()[0] for l in case[:i]]):
            lost = [p for p in took if p not in delivered and p not in closed]
            if lost:
                return (i, KEY_SFDQ, "after close descriptor f%d is neither delivered nor closed (lost, leaked)" % lost[0])
    return None


def run_one(binp, case, timeout=60):
    out, crash = run_cases(binp, [case], timeout=timeout)
    return out[0], crash


def san_key(errtxt, finished):
    """classify a sanitizer report of a scenario run: defects outside C14's words that the stress scenarios expose"""
    if "ERROR: AddressSanitizer: heap-use-after-free" in errtxt:
        head = errtxt.split("freed by")[0]
        if ("nni_stat_register" in head or "stat_unregister" in head) and "pipe_destroy" in errtxt:
            return KEY_RACE
        return None
    if "LeakSanitizer" in errtxt and "ERROR: AddressSanitizer" not in errtxt and finished:
        keys = set()
        for b in errtxt.split("Direct leak")[1:]:
            if "nni_pipe_alloc_listener" in b.split("leak of")[0] or "nni_pipe_alloc_dialer" in b.split("leak of")[0]:
                keys.add(KEY_WLEAK)
            elif "nni_tcp_dial" in b and "nni_posix_tcp_alloc" in b:
                keys.add(KEY_DLEAK)
            else:
                keys.add(None)
        if len(keys) == 1:
            return keys.pop()
        if None not in keys and keys:
            return sorted(keys)[0]
    return None
STOP_CODES = (7, 18, 20, 999)
ACC_CODES = [2, 13, 19, 5, 27, 31, 6, 3, 4, 12, 21, 1, 30, 1000, 268435467]
DIAL_CODES = [6, 5, 13, 31, 19, 2, 14, 15, 12, 3, 268435567]
PEER = {"bus0": 112, "pair0": 16, "pair1": 17}


# ------------------------------------------------------------------ generator (script mode)
def gen_script(rng, tier, fixmax=True):
    proto = rng.choice(["bus0", "bus0", "bus0", "pair0", "pair1"])
    good, bad = PEER[proto], rng.choice([99, 16, 112, 48])
    if bad == good:
        bad = 49
    L = ["open s0 %s" % proto]
    mask = rng.choice(["111", "111", "111", "111", "101", "110", "011", "001", "100"])
    full = mask == "111"
    L.append("notify s0 %s" % mask)
    huge = rng.random() < 0.35        # back-off times so large that real time cannot fire a timer
    if huge:
        mn, mx = rng.choice([(10 ** 6, 0), (10 ** 6, 64 * 10 ** 6), (5 * 10 ** 6, 10 ** 6), (10 ** 7, 10 ** 7), (2 * 10 ** 6, 3 * 10 ** 6)])
    else:
        mn, mx = rng.choice([(0, 0), (0, 300), (50, 0), (100, 1000), (300, 100), (1000, 0), (20, 20), (1, 2), (7, 100), (250, 4000)])
    if rng.random() < 0.3:
        L += ["sopt s0 min %d" % mn, "sopt s0 max %d" % mx]
        sock_opts = True
    else:
        sock_opts = False
    nl = rng.choice([0, 1, 1, 2])
    nd = rng.choice([0, 1, 1, 2]) if nl else rng.choice([1, 2])
    for k in range(nl):
        L.append("listen l%d s0" % k)
    hib = max(mn, mx, 1000)            # the largest back-off any dialer of this case can have
    for k in range(nd):
        L.append("dialer d%d s0" % k)
        if not sock_opts or rng.random() < 0.3:
            L += ["dopt d%d min %d" % (k, mn), "dopt d%d max %d" % (k, mx)]
        L.append("dstart d%d %s" % (k, rng.choice(["nb", "nb", "nb", "aio"])))
    npipes = 0
    lopen = [True] * nl
    dopen = [True] * nd
    cur_mx = {k: mx for k in range(nd)}
    for _ in range(rng.randrange(6, 40 if tier == "quick" else 70)):
        r = rng.random()
        if r < 0.16 and nl:
            k = rng.randrange(nl)
            L.append("conn l%d %d" % (k, good if rng.random() < 0.8 else bad))
            npipes += 1
        elif r < 0.26 and nl:
            k = rng.randrange(nl)
            code = rng.choice(ACC_CODES) if rng.random() < 0.9 else rng.choice(STOP_CODES)
            if rng.random() < 0.4:
                L.append("accfail l%d %d %d" % (k, code, good))
                npipes += 1
            else:
                L.append("accfail l%d %d" % (k, code))
            if rng.random() < 0.6:
                L.append("advance %d" % rng.choice([150, 150, 1000] if not huge else [150, 400]))
        elif r < 0.38 and nd:
            k = rng.randrange(nd)
            L.append("dialok d%d %d" % (k, good if rng.random() < 0.8 else bad))
            npipes += 1
        elif r < 0.52 and nd:
            k = rng.randrange(nd)
            code = rng.choice(DIAL_CODES) if rng.random() < 0.93 else rng.choice((7, 20, 999))
            if rng.random() < 0.3:
                L.append("dialfail d%d %d %d" % (k, code, good))
                npipes += 1
            else:
                L.append("dialfail d%d %d" % (k, code))
            if huge and rng.random() < 0.3:
                L.append("advance %d" % rng.choice([1, 500, 20000]))      # far too little: nothing may fire
            if rng.random() < 0.85:
                L.append("advance %d" % (hib + 1))
        elif r < 0.62 and npipes:
            p = rng.randrange(npipes)
            L.append("%s p%d" % (rng.choice(["drop", "pclose", "drop"]), p))
            if nd and rng.random() < 0.7:
                L.append("advance %d" % (hib + 1))
        elif r < 0.70:
            ev = rng.choice([1, 1, 2, 2, 3])
            # (for REM_POST only "all" or "none": which pipe's callback comes first when several pipes are
            #  reaped at once is the reap list's order, which the model does not fix)
            L.append("cbclose s0 %d %d" % (ev, rng.choice([1, 1, 2, -1, 0]) if ev != 3 else rng.choice([-1, 0])))
        elif r < 0.74 and not full:
            mask = rng.choice(["111", "101", "110", "011", "000", "100"])
            L.append("notify s0 %s" % mask)
        elif r < 0.80 and nd:
            # option changes that the delay bound covers: the minimum at any time; the maximum raised
            k = rng.randrange(nd)
            if rng.random() < 0.5:
                v = rng.choice([0, 10, 200, 1500] if not huge else [10 ** 6, 3 * 10 ** 6])
                L.append("dopt d%d min %d" % (k, v))
                hib = max(hib, v)
            else:
                v = max(cur_mx[k], 1) * rng.choice([1, 2, 5])
                v = min(v, 10 ** 9)
                if fixmax and rng.random() < 0.5:
                    # the repaired nni_dialer_setopt restarts the back-off: lowering is covered too
                    v = rng.choice([0, 1, 30, 500] if not huge else [0, 10 ** 6, 2 * 10 ** 6])
                L.append("dopt d%d max %d" % (k, v))
                cur_mx[k] = v
                hib = max(hib, v)
        elif r < 0.90:
            L.append("advance %d" % rng.choice([hib + 1, 101, 150] if not huge else [hib + 1, 150, 7]))
        elif r < 0.93 and nl:
            L.append("lclose l%d" % rng.randrange(nl))
        elif r < 0.96 and nd:
            L.append("dclose d%d" % rng.randrange(nd))
        elif r < 0.975:
            L.append("dopt d0 min -5" if nd else "poll")
        else:
            L.append("poll")
    L.append("advance %d" % (hib + 1))
    L.append("close s0")
    L.append("poll")
    return L


# ------------------------------------------------------------------ parsing observation lines
OBS = re.compile(r"^rv=(\d+)(?: pipe=p(\d+))?( NOT-QUIESCENT)? ev=(\S+) pipes=(\S+)(.*)$")
DIAL = re.compile(r" d(\d+)=(x|(p\d+|p\?|-)/(-?\d+)/(-?\d+)/(-?\d+)/([ct-])/a(\d+)(?:/r(\d+))?(?:/u(\d+))?)")
LST = re.compile(r" l(\d+)=(x|([at-])/a(\d+)(?:/r(\d+))?)")


def parse(line):
    m = OBS.match(line or "")
    if not m:
        return None
    o = {"rv": int(m.group(1)), "pipe": None if m.group(2) is None else int(m.group(2)), "nq": bool(m.group(3)),
         "ev": [] if m.group(4) == "-" else m.group(4).split(","),
         "pipes": {} if m.group(5) == "-" else {int(x.split(":")[0][1:]): (x.split(":")[1], int(x.split(":")[2])) for x in m.group(5).split(",")},
         "d": {}, "l": {}}
    for d in DIAL.finditer(m.group(6)):
        if d.group(2) == "x":
            continue
        o["d"][int(d.group(1))] = {"pipe": d.group(3), "min": int(d.group(4)), "max": int(d.group(5)), "cur": int(d.group(6)),
                                   "ph": d.group(7), "att": int(d.group(8)), "rem": None if d.group(9) is None else int(d.group(9)),
                                   "u": None if d.group(10) is None else int(d.group(10))}
    for l in LST.finditer(m.group(6)):
        if l.group(2) == "x":
            continue
        o["l"][int(l.group(1))] = {"ph": l.group(3), "att": int(l.group(4)), "rem": None if l.group(5) is None else int(l.group(5))}
    return o


def canon(line):
    return re.sub(r"/r\d+", "", line or "")


ALLOWED = ([], [1], [1, 2], [1, 3], [1, 2, 3])


def oracle(case, out):
    """the property's clauses on the implementation's own observations; None or (line index, key, text)"""
    nidx = [i for i, l in enumerate(case) if l.startswith("notify ")]
    cidx = [i for i, l in enumerate(case) if l.split()[0] in ("conn", "dialok", "accfail", "dialfail")]
    # all three callbacks registered before the first pipe exists and never changed
    full_always = bool(nidx) and all(case[i].split()[2] == "111" for i in nidx) and (not cidx or nidx[0] < cidx[0])
    evs, xin = {}, {}           # pipe -> [event numbers], pipe -> set of events in whose callback it was closed
    owner = {}                  # pipe -> ("d"|"l", k)
    dmode = {}                  # dialer -> "nb" / "aio"
    lowered = set()             # dialers whose maximum was lowered (not generated by gen_script)
    armed_bound = {}            # dialer -> larger reconnect time when its timer was armed
    idle_since = {}             # dialer -> (line, text): seen with neither pipe, timer nor connect right after a loss
    prev = None
    for i, line in enumerate(case):
        t = line.split()
        o = parse(out[i]) if i < len(out) else None
        if o is None:
            return (i, None, "no/odd observation %r" % (out[i] if i < len(out) else None))
        if o["nq"]:
            return (i, None, "the library did not become quiescent")
        if o["pipe"] is not None:
            if t[0] in ("accfail", "conn"):
                owner[o["pipe"]] = ("l", int(t[1][1:]))
            else:
                owner[o["pipe"]] = ("d", int(t[1][1:]))
        if t[0] == "dstart":
            dmode[int(t[1][1:])] = t[2]
        if t[0] == "dopt" and t[2] == "max" and prev is not None:
            k = int(t[1][1:])
            if k in prev["d"] and int(t[3]) < prev["d"][k]["max"] and o["rv"] == 0:
                lowered.add(k)
        if t[0] == "dopt" and t[2] == "min" and o["rv"] == 0:
            lowered.discard(int(t[1][1:]))
        # ---- events: order, at most once, nothing without ADD_PRE
        for e in o["ev"]:
            m = re.match(r"^p(\d+):(\d)(x?)$", e)
            if not m:
                return (i, None, "event for a pipe the transport does not know: %s" % e)
            p, ev = int(m.group(1)), int(m.group(2))
            evs.setdefault(p, []).append(ev)
            if m.group(3):
                xin.setdefault(p, set()).add(ev)
            s = evs[p]
            if any(s[j] >= s[j + 1] for j in range(len(s) - 1)) or ev not in (1, 2, 3):
                return (i, None, "pipe p%d: notifications %s are not in the order ADD_PRE < ADD_POST < REM_POST, each at most once" % (p, s))
            if full_always and s not in ALLOWED:
                return (i, None, "pipe p%d: notifications %s (all three registered from the start): ADD_POST/REM_POST without ADD_PRE" % (p, s))
            if 1 in xin.get(p, ()) and ev == 2:
                return (i, None, "pipe p%d was closed inside ADD_PRE and still got ADD_POST" % p)
        # ---- closed inside ADD_PRE: the protocol never used it
        for p, (st, io) in o["pipes"].items():
            if 1 in xin.get(p, ()) and io:
                return (i, None, "pipe p%d was closed inside its ADD_PRE callback, yet the protocol posted I/O on it" % p)
        # ---- REM_POST by the return of close
        if t[0] == "close" and o["rv"] == 0 and full_always:
            for p, s in evs.items():
                if 2 in s and 3 not in s:
                    return (i, None, "nng_socket_close returned; pipe p%d had ADD_POST and no REM_POST" % p)
        if t[0] in ("poll", "advance") and prev is not None and i > 0 and case[i - 1].split()[0] == "close" and o["ev"]:
            return (i, None, "notification %s after nng_socket_close had returned" % o["ev"])
        # ---- a dialer owns at most one pipe
        for k in o["d"]:
            mine = [p for p, ow in owner.items() if ow == ("d", k) and 1 in evs.get(p, []) and 3 not in evs.get(p, [])]
            if full_always and len(mine) > 1:
                return (i, None, "dialer d%d has %d pipes between ADD_PRE and REM_POST: %s" % (k, len(mine), mine))
        # ---- delay bound and progress
        for k, d in o["d"].items():
            # the reconnect times in force when this timer was armed (a later option change does not
            # shorten a delay already drawn, and the property does not ask it to)
            pdk = prev["d"].get(k) if prev else None
            if d["ph"] == "t" and not (pdk and pdk["ph"] == "t" and pdk["att"] == d["att"] and k in armed_bound):
                armed_bound[k] = max(d["min"], d["max"]) if t[0] != "dopt" else max(pdk["min"], pdk["max"]) if pdk else max(d["min"], d["max"])
            bound = armed_bound.get(k, max(d["min"], d["max"]))
            if d["ph"] == "t" and d["rem"] is not None and d["min"] >= 0 and d["max"] >= 0:
                if (bound == 0 and d["rem"] > 0) or (bound > 0 and d["rem"] >= bound):
                    return (i, KEY_MID if k in lowered else None,
                            "dialer d%d: %d ms of its redial delay are left, reconnect times configured: min %d max %d (larger one when the timer was armed: %d)" % (k, d["rem"], d["min"], d["max"], bound))
            pd = prev["d"].get(k) if prev else None
            if pd is None:
                continue
            if t[0] == "dialfail" and int(t[1][1:]) == k and o["rv"] == 0 and int(t[2]) not in (0, 7, 20, 999):
                if dmode.get(k) == "aio" and pd["att"] == 1 and d["u"] is not None:
                    pass        # a dial with a user aio reports the failure and does not retry
                elif d["ph"] not in ("t", "c"):
                    idle_since[k] = (i, "dialer d%d: background dial failed with %s and neither a timer is armed nor a connect pending" % (k, t[2]))
            if pd["pipe"].startswith("p") and d["pipe"] == "-" and d["ph"] not in ("t", "c"):
                idle_since[k] = (i, "dialer d%d lost its pipe %s and neither a timer is armed nor a connect pending" % (k, pd["pipe"]))
            if k in idle_since and idle_since[k][0] < i:
                # seen idle at the previous observation: a real-time window unless it is still idle now
                j, txt = idle_since.pop(k)
                if d["ph"] == "-" and d["pipe"] == "-" and d["att"] == pd["att"] and t[0] in ("poll", "advance", "conn", "accfail", "cbclose", "notify"):
                    return (j, None, txt)
            if t[0] == "advance" and pd["ph"] == "t" and int(t[1]) > max(armed_bound.get(k, 0), pd["min"], pd["max"], pd["cur"]) and d["ph"] != "c":
                return (i, KEY_MID if k in lowered else None, "dialer d%d: %s ms after the timer was armed (reconnect times %d/%d) no connect was attempted" % (k, t[1], pd["min"], pd["max"]))
            if t[0] == "advance" and pd["ph"] == "t" and d["ph"] == "c" and d["att"] != pd["att"] + 1:
                return (i, None, "dialer d%d: attempts %d -> %d over one timer expiry" % (k, pd["att"], d["att"]))
        # ---- listener re-arms
        for k, l in o["l"].items():
            pl = prev["l"].get(k) if prev else None
            if pl is None:
                continue
            if t[0] == "accfail" and int(t[1][1:]) == k and o["rv"] == 0 and int(t[2]) not in STOP_CODES and int(t[2]) != 0:
                if l["ph"] not in ("a", "t"):
                    return (i, None, "listener l%d: accept failed with %s and is neither re-armed nor cooling down" % (k, t[2]))
                if l["ph"] == "t" and l["rem"] is not None and l["rem"] > 100:
                    return (i, None, "listener l%d: cool-down of %d ms left (> 100)" % (k, l["rem"]))
            if t[0] == "advance" and pl["ph"] == "t" and int(t[1]) > 100 and l["ph"] != "a":
                return (i, None, "listener l%d: %s ms after the cool-down began the accept is not re-armed" % (k, t[1]))
            if t[0] == "conn" and int(t[1][1:]) == k and o["rv"] == 0 and pl["ph"] == "a" and l["ph"] != "a":
                return (i, None, "listener l%d: accept not re-armed after a connection" % k)
        prev = o
    return None


def sched_dependent(case, mo, io):
    """PAIR accepts one pipe: when one command makes a pipe go away AND starts another one (several connections were
    waiting for the accept to be re-armed), whether the second is accepted or refused as busy depends on whether the
    reaper (protocol pipe_close of the first) or the accept callback (protocol pipe_start of the second) runs first.
    Both orders are legal; the model driver fixes one.  Such lines are not compared."""
    a, b = parse(mo), parse(io)
    if a is None or b is None:
        return False
    # any protocol: several pipes are started by one command on different endpoints (their callbacks run on different
    # task threads) and a finite "cbclose" counter is consumed by whichever callback comes first
    ea = sorted(e.rstrip("x") for e in a["ev"])
    eb = sorted(e.rstrip("x") for e in b["ev"])
    if ea == eb and len(set(e.split(":")[0] for e in a["ev"])) >= 2 and \
            sum(e.endswith("x") for e in a["ev"]) == sum(e.endswith("x") for e in b["ev"]) and a["ev"] != b["ev"]:
        return True
    if not case or case[0].split()[-1] not in ("pair0", "pair1"):
        return False
    pa = set(e.split(":")[0] for e in a["ev"])
    pb = set(e.split(":")[0] for e in b["ev"])
    if len(pa) >= 2 and pa == pb:
        return True
    # ... or, with no callback registered, one pipe that was used by the protocol in one run and refused in the other
    if a["ev"] == b["ev"] and a["d"] == b["d"] and a["l"] == b["l"] and a["rv"] == b["rv"] and set(a["pipes"]) == set(b["pipes"]):
        diff = [p for p in a["pipes"] if a["pipes"][p] != b["pipes"][p]]
        return len(diff) == 1 and sum(1 for p in a["pipes"] if a["pipes"][p][0] == "g") >= 1
    return False


def rt_early(mo, io):
    """the implementation is merely ahead of the model in REAL time: a timer the model still shows armed has fired"""
    a, b = parse(mo), parse(io)
    if a is None or b is None:
        return False
    for k, d in a["d"].items():
        e = b["d"].get(k)
        if e and d["ph"] == "t" and e["att"] > d["att"]:
            return True     # the timer the model still shows armed has fired in real time (and things went on from there)
        if e and d["ph"] == "t" and e["ph"] == "-" and e["att"] == d["att"] and e["pipe"] == "-":
            return True     # expired; its callback is about to run (the driver waited 40 ms for it in vain)
    for k, l in a["l"].items():
        e = b["l"].get(k)
        if e and l["ph"] == "t" and (e["ph"] == "a" or e["att"] > l["att"]):
            return True
    return False


# ------------------------------------------------------------------ directed cases for the two dialer findings
def case_midchange():
    L = ["open s0 bus0", "notify s0 111", "dialer d0 s0", "dopt d0 min 10", "dopt d0 max 1000", "dstart d0 nb"]
    for _ in range(8):
        L += ["dialfail d0 6", "advance 1001"]
    L += ["dopt d0 max 0"]
    for _ in range(10):
        L += ["dialfail d0 6", "advance 1001"]
    return L + ["close s0"]


def case_overflow():
    return ["open s0 bus0", "dialer d0 s0", "dopt d0 min 1073741824", "dopt d0 max 2147483647", "dstart d0 nb", "dialfail d0 6", "poll", "close s0"]


# ------------------------------------------------------------------ scenario logs
def scen_oracle(kind, out):
    """oracle for the logs of `wb_pipeev real|redial|hostile`; returns None or text"""
    if not out or not out[-1].endswith("-done"):
        return "scenario did not finish: %r" % (out[-3:] if out else out)
    evs, closed_in, msgs = {}, {}, {}
    sock_closed = {}
    dial_of = {}
    P = {}
    for l in out:
        t = l.split()
        if not t:
            continue
        if t[0] == "LOG-OVERFLOW":
            return None
        if t[0] == "P":
            P = dict(x.split("=", 1) for x in t[1:])
        if t[0] == "E":
            s, pid, ev = t[2], t[3], int(t[4])
            key = (s, pid)
            if s in sock_closed:
                return "notification (pipe %s event %d) on %s after its nng_socket_close had returned" % (pid, ev, s)
            seq = evs.setdefault(key, [])
            seq.append(ev)
            if seq not in ([1], [1, 2], [1, 3], [1, 2, 3]):
                return "socket %s pipe %s: notifications %s" % (s, pid, seq)
            if ev == 2 and 1 in closed_in.get(key, ()):
                return "socket %s pipe %s was closed inside ADD_PRE and got ADD_POST" % (s, pid)
            did = t[5]
            if did not in ("d-1", "d0"):
                dk = (s, did)
                if ev == 1:
                    for q in dial_of.get(dk, []):
                        if 3 not in evs.get((s, q), []):
                            return "dialer %s of %s: pipe %s gets ADD_PRE while its pipe %s has had no REM_POST" % (did, s, pid, q)
                    dial_of.setdefault(dk, []).append(pid)
        elif t[0] == "X":
            closed_in.setdefault((t[2], t[3]), set()).add(int(t[4]))
        elif t[0] == "M":
            key = (t[2], t[3])
            if 1 in closed_in.get(key, ()):
                return "socket %s received a message from pipe %s, which was closed inside its ADD_PRE callback" % key
            if key not in evs:
                return "socket %s received a message from pipe %s before its ADD_PRE" % key
        elif t[0] == "C":
            s = t[2]
            sock_closed[s] = True
            for (s2, pid), seq in evs.items():
                if s2 == s and 2 in seq and 3 not in seq:
                    return "nng_socket_close(%s) returned; pipe %s had ADD_POST and no REM_POST" % (s, pid)
        elif t[0] == "L":
            f = dict(x.split("=") for x in t[2:])
            if f["open"] == "1" and f["target_open"] == "1" and f["pipe"] != "1" and int(f.get("stable", "0")) < 3:
                return "liveness: dialer %s is open, its listener is open, and after %s ms (virtual clock advanced throughout) it has no pipe" % (t[1], f["waited"])
        elif t[0] == "R":
            f = dict(x.split("=") for x in t[2:])
            bound = int(P.get("bound", "0"))
            if f["arrived"] == "0":
                return "liveness: no connection attempt within 4 s of real time after the virtual clock had been advanced by the larger reconnect time (%d ms): %s" % (bound, l)
            if f.get("armed") == "1":
                rem, cur = int(f["rem"]), int(f["cur"])
                if (bound == 0 and rem > 0) or (bound > 0 and rem >= bound):
                    return "redial delay: %d ms left, larger reconnect time %d: %s" % (rem, bound, l)
        elif t[0] == "Q":
            if len(t) > 2 and t[2] == "setup-failed":
                continue
            f = dict(x.split("=") for x in t[2:])
            if f.get("l2rv") == "0" and int(f.get("stable", "0")) < 3:
                lost = [k for k, v in f.items() if k.startswith("d") and v != "1"]
                return ("liveness: the listener was closed and a new one opened at the same address (%s, variant %s: %s); %s ms later, the virtual clock "
                        "advanced past the larger reconnect time (%s ms) throughout, open dialer(s) %s still have no pipe: %s" %
                        (P.get("transport"), f.get("variant"),
                         {"0": "connects queued behind a slow ADD_PRE callback", "1": "connects queued behind a slow ADD_PRE callback",
                          "2": "peers connected", "3": "closed right after the dials"}.get(f.get("variant"), "?"),
                         f.get("waited"), P.get("bound"), ",".join(lost), l))
        elif t[0] == "H":
            f = dict(x.split("=") for x in t[2:])
            if f["ctl_rv"] != "0" or f["s_addpost"] != "1":
                return "liveness: after hostile peer behaviour %s a well-behaved client could not connect (rv %s, listener saw ADD_POST: %s): %s" % (f["kind"], f["ctl_rv"], f["s_addpost"], l)
    return None


def run_scen(binp, args, timeout=120, delay_seed=0):
    try:
        env = dict(os.environ, **ASAN_ENV)
        env["C14_DELAY_SEED"] = str(delay_seed)       # hook H5: seeded sleeps at the create/close delay points
        p = subprocess.run([binp] + [str(a) for a in args], capture_output=True, text=True, timeout=timeout,
                           env=env, cwd="/tmp")
        return p.returncode, p.stdout.splitlines(), p.stderr
    except subprocess.TimeoutExpired as ex:
        out = ex.stdout.decode() if isinstance(ex.stdout, bytes) else (ex.stdout or "")
        return -9, out.splitlines(), "TIMEOUT"


# ------------------------------------------------------------------ main
def run(tier, seed, replay=None):
    rep = Report("C14", tier, seed)
    for k in os.environ.get("C14_ACCEPT", "").split(","):      # local override while a finding awaits main's decision
        if k:
            rep.known.setdefault(k, "(accepted locally through C14_ACCEPT)")
    # Gen/Consts.v is shared with the other properties' checks, which may regenerate it from another
    # tree at any moment: make sure the proofs were checked against the constants of THIS tree
    def c14_lines():
        try:
            return [l for l in open(os.path.join(COQ, "Gen", "Consts.v")) if "C14_" in l]
        except OSError:
            return []
    for attempt in range(4):
        ok, msg = gen_consts("c14")
        mine = c14_lines()
        cb = coq_build("Properties_C14")
        if c14_lines() == mine:
            break
    shape_bad = [re.match(r"Definition (C14_\w+)", l).group(1) for l in mine
                 if re.match(r"Definition C14_\w+(_OK|_SHAPE|_KICKS|_REARMS|_CLOSE_ONLY) : bool := false", l)]
    if any("C14_NEGO_MAPS_ECLOSED" in l and "false" in l for l in mine):
        shape_bad.append("C14_NEGO_MAPS_ECLOSED")
    gate = coq_gate()
    rep.proof_cov(cb, "make -C coq Props/Properties_C14.vo && coqc Props/Properties_C14.v (Print Assumptions) ; grep gate")
    proof_ok = ok and cb["ok"] and not gate
    model_build("c14", "c14sfd")
    bdir, err = nng_build("asan")
    if bdir is None:
        p = rep.replay_file("build_failed.txt", err)
        rep.violation(p, "nng does not build", nofail=True)
        return rep.finish()
    # the driver's scenario half lives in a header: rebuild when it changed
    src_c, src_h = os.path.join(HARNESS, "wb_pipeev.c"), os.path.join(HARNESS, "wb_pipeev_real.h")
    if os.path.getmtime(src_h) > os.path.getmtime(src_c):
        os.utime(src_c, None)
    impl, err = wb_build(bdir, "wb_pipeev.c")
    if impl is None:
        p = rep.replay_file("wb_pipeev_build.txt", err)
        rep.violation(p, "C14 driver does not build against the current tree (hooks H2q/H4 missing?)", nofail=True)
        return rep.finish()
    def impl_path():
        # the scratch build directory may be evicted by concurrent builds of other checks: rebuild on demand
        nonlocal impl
        if not os.path.exists(impl):
            b2, _ = nng_build("asan")
            if b2 is not None:
                i2, _ = wb_build(b2, "wb_pipeev.c")
                if i2 is not None:
                    impl = i2
        return impl
    model = model_bin("modeld_c14")
    rc, o, e = run_prog(model, "", args=["--flags"])
    flags = o[0] if o else "?"
    fixmax, wide = "fixmax=true" in flags, "wide=true" in flags
    rng = random.Random(seed)
    t_sections = {"prelude_s": round(time.time() - rep.t0, 1)}

    # ---- 1. scripted cases: implementation vs model vs oracle
    n = 450 if tier == "quick" else 14000
    if replay and replay.endswith(".sfdq"):
        cases = []
    elif replay:
        cases = [[l.strip() for l in open(replay) if l.strip() and not l.startswith("#")]]
    else:
        cases = load_corpus("C14") + [gen_script(rng, tier, fixmax) for _ in range(n)]
    diverged, rt_skips, sched_skips, lines_cmp = [], 0, 0, 0
    hist = {}
    for b0 in range(0, len(cases), 50):
        batch = cases[b0:b0 + 50]
        iout, crash = run_cases(impl_path(), batch, timeout=900)
        mout, _ = run_cases(model, batch, timeout=900)
        if crash:
            ci, rc, errtxt = crash
            p = rep.replay_file("crash_%d.case" % (b0 + ci), "# implementation crashed (rc=%s)\n# %s\n" % (rc, errtxt.replace("\n", "\n# ")) + "\n".join(batch[ci]) + "\n")
            rep.violation(p, "C14 driver crashed / sanitizer report (rc=%s): %s" % (rc, san_summary(errtxt)))
            continue
        for ci, case in enumerate(batch):
            rep.cov["evaluations"] += len(case)
            for l in case:
                hist[l.split()[0]] = hist.get(l.split()[0], 0) + 1
            bad = oracle(case, iout[ci])
            if bad:
                k, key, text = bad
                small = ddmin(case, lambda c: oracle(c, run_cases(impl_path(), [c])[0][0]) is not None, max_iter=60)
                p = rep.replay_file("spec_%d.case" % (b0 + ci), "# %s at op %d (%s)\n" % (text, k, case[k] if k < len(case) else "?") + "\n".join(small) + "\n")
                rep.violation(p, "C14: %s (op %d: %s)" % (text, k, case[k] if k < len(case) else "?"), key=key)
                continue
            for k, line in enumerate(case):
                io = canon(iout[ci][k]) if k < len(iout[ci]) else None
                mo = mout[ci][k] if k < len(mout[ci]) else None
                lines_cmp += 1
                if io != mo:
                    if rt_early(mo, iout[ci][k] if k < len(iout[ci]) else None):
                        rt_skips += 1
                    elif sched_dependent(case, mo, iout[ci][k] if k < len(iout[ci]) else None):
                        sched_skips += 1
                    else:
                        diverged.append((b0 + ci, k, line, io, mo))
                    break
    if diverged and not rep.violations:
        ci, k, line, io, mo = diverged[0]
        p = rep.replay_file("diverge_%d.case" % ci, "# model and implementation differ at op %d: %s\n# impl : %s\n# model: %s\n" % (k, line, io, mo) + "\n".join(cases[ci]) + "\n")
        rep.violation(p, "correspondence C14 models <-> socket.c/pipe.c/dialer.c/listener.c broken on %d scripted cases (no input violating the property found); first: op %r impl=%r model=%r" % (len(diverged), line, io, mo), nofail=True)

    t_sections["scripted_s"] = round(time.time() - rep.t0 - t_sections["prelude_s"], 1)
    # ---- 2. the two dialer findings, directed (reported under their keys while the tree has them)
    if not replay:
        iout, crash = run_cases(impl_path(), [case_midchange()], timeout=120)
        if crash:
            p = rep.replay_file("midchange_crash.case", "\n".join(case_midchange()) + "\n# " + crash[2][-1500:].replace("\n", "\n# ") + "\n")
            rep.violation(p, "C14 driver crashed on the mid-back-off case: %s" % san_summary(crash[2]))
        else:
            bad = oracle(case_midchange(), iout[0])
            if bad:
                p = rep.replay_file("reconnmax_lowered_midbackoff.case", "# %s\n" % bad[2] + "\n".join(case_midchange()) + "\n")
                rep.violation(p, "RECONNMAXT lowered to 0 while backing off never takes effect: %s" % bad[2], key=KEY_MID if bad[1] == KEY_MID else None)
            elif not fixmax:
                p = rep.replay_file("midchange_model.txt", "Gen/Consts.v says the pinned form of nni_dialer_setopt(RECONNMAXT), the library did not show the long delays\n" + "\n".join(iout[0]))
                rep.violation(p, "flag C14_RECONNMAX_RESETS = false but the implementation bounds the delay after RECONNMAXT was lowered", nofail=True)
        iout, crash = run_cases(impl_path(), [case_overflow()], timeout=120)
        if crash and "signed integer overflow" in crash[2] and "socket.c" in crash[2]:
            p = rep.replay_file("backoff_overflow.case", "# %s\n" % san_summary(crash[2]) + "\n".join(case_overflow()) + "\n")
            rep.violation(p, "dialer_timer_start_locked: d_currtime *= 2 overflows int32 with RECONNMINT >= 2^30 ms: %s" % san_summary(crash[2]), key=KEY_OVF)
        elif crash:
            p = rep.replay_file("overflow_crash.case", "\n".join(case_overflow()) + "\n# " + crash[2][-1500:].replace("\n", "\n# ") + "\n")
            rep.violation(p, "C14 driver crashed on the large-reconnect-time case: %s" % san_summary(crash[2]))
        else:
            o = parse(iout[0][5]) if len(iout[0]) > 5 else None
            if o and 0 in o["d"] and (o["d"][0]["cur"] < 0 or o["d"][0]["cur"] > 2147483647):
                p = rep.replay_file("backoff_overflow.case", "\n".join(case_overflow()) + "\n# " + iout[0][5] + "\n")
                rep.violation(p, "d_currtime wrapped to %d" % o["d"][0]["cur"], key=KEY_OVF)

    # ---- 2b. the socket-fd listener's hand-over queue: wb_sfdq.c vs Core/SfdqModel vs the oracle, one process per case
    sfd_stats = {"cases": 0, "lines": 0, "diverged": 0, "oob_crashes": 0, "oracle_failures": 0}
    sfd_impl, err = wb_build(bdir, "wb_sfdq.c")
    if sfd_impl is None:
        p = rep.replay_file("wb_sfdq_build.txt", err)
        rep.violation(p, "sfd queue driver does not build against the current tree", nofail=True)
    elif not replay or replay.endswith(".sfdq"):
        sfd_model = model_bin("modeld_c14sfd")
        rngs = random.Random(seed * 7919 + 13)
        if replay:
            sfd_cases = [[l.strip() for l in open(replay) if l.strip() and not l.startswith("#")]]
        else:
            sfd_cases = [[l.strip() for l in open(os.path.join(VERIF, "corpus", "C14", f)) if l.strip() and not l.startswith("#")]
                         for f in sorted(os.listdir(os.path.join(VERIF, "corpus", "C14"))) if f.endswith(".sfdq")]
            sfd_cases += [gen_sfdq(rngs) for _ in range(160 if tier == "quick" else 3000)]
        sfd_div = []

        def one(ci):
            if not os.path.exists(sfd_impl):
                return ci, None, (0, -1, "driver binary vanished"), None
            io, crash = run_one(sfd_impl, sfd_cases[ci])
            mo, _ = run_one(sfd_model, sfd_cases[ci])
            return ci, io, crash, mo
        with concurrent.futures.ThreadPoolExecutor(max_workers=5) as ex:
            for ci, io, crash, mo in ex.map(one, range(len(sfd_cases))):
                case = sfd_cases[ci]
                sfd_stats["cases"] += 1
                sfd_stats["lines"] += len(case)
                rep.cov["evaluations"] += len(case)
                body = "\n".join(case) + "\n"
                if crash:
                    _, rc, errtxt = crash
                    oob = "out of bounds" in errtxt and "sockfd.c" in errtxt
                    sfd_stats["oob_crashes"] += oob
                    p = rep.replay_file("sfdq_crash_%d.sfdq" % ci, "# rc=%s %s\n" % (rc, san_summary(errtxt)) + body)
                    rep.violation(p, "socket-fd listener: %s" % (san_summary(errtxt) or "driver crashed rc=%s" % rc), key=KEY_SFDQ if oob else None)
                    # the model must have predicted the out-of-bounds read
                    if oob and "OOB" not in (mo or []):
                        rep.violation(p, "socket-fd listener read listen_q out of bounds where the model does not", nofail=True)
                    continue
                bad = sfdq_oracle(case, io)
                if bad:
                    sfd_stats["oracle_failures"] += 1
                    k, key, text = bad
                    p = rep.replay_file("sfdq_spec_%d.sfdq" % ci, "# %s at op %d (%s)\n" % (text, k, case[k] if k < len(case) else "?") + body)
                    rep.violation(p, "socket-fd listener: %s (op %d: %s)" % (text, k, case[k] if k < len(case) else "?"), key=key)
                for k in range(len(case)):
                    a = io[k] if k < len(io) else None
                    b = mo[k] if k < len(mo) else None
                    if a != b:
                        sfd_div.append((ci, k, case[k], a, b))
                        break
        sfd_stats["diverged"] = len(sfd_div)
        if sfd_div and not rep.violations:
            ci, k, line, a, b = sfd_div[0]
            p = rep.replay_file("sfdq_diverge_%d.sfdq" % ci, "# model and implementation differ at op %d: %s\n# impl : %s\n# model: %s\n" % (k, line, a, b) + "\n".join(sfd_cases[ci]) + "\n")
            rep.violation(p, "correspondence SfdqModel <-> sockfd.c broken on %d cases (no input violating the property found); first: op %r impl=%r model=%r" % (len(sfd_div), line, a, b), nofail=True)
    rep.cov["sfd_listen_queue"] = sfd_stats

    # ---- 3. real transports, raw peers
    scen = []
    if not replay:
        nseed = 10 if tier == "quick" else 120
        for tr in ("tcp", "ipc", "inproc"):
            for i in range(nseed):
                scen.append(("real", [tr, seed * 1000 + i, 160 if tier == "quick" else 400]))
        cfgs = [(0, 0), (0, 400), (60, 0), (100, 1000), (300, 100), (1000, 0), (25, 25), (1, 3), (2000, 500)]
        for tr in ("tcp", "ipc"):
            for j, (mn, mx) in enumerate(cfgs):
                for i in range(2 if tier == "quick" else 16):
                    scen.append(("redial", [tr, seed * 1000 + 100 * j + i, mn, mx, 14 if tier == "quick" else 40]))
            for i in range(3 if tier == "quick" else 30):
                scen.append(("hostile", [tr, seed * 1000 + i, 14 if tier == "quick" else 40]))
        # listener closed / re-opened while connects are queued on it, in handshake, or established
        for tr, ns in (("inproc", 5), ("ipc", 2), ("tcp", 2)):
            for i in range(ns if tier == "quick" else ns * 12):
                scen.append(("lrestart", [tr, seed * 1000 + i, 5 if tier == "quick" else 12]))
    sc_hist = {"real": 0, "redial": 0, "hostile": 0, "lrestart": 0}
    confirmations = {"reruns": 0, "not_confirmed": 0}
    sc_events = 0
    sc_rounds = 0
    with concurrent.futures.ThreadPoolExecutor(max_workers=5) as ex:
        # thorough: every second run with delay injection
        impl_path()
        futs = {ex.submit(run_scen, impl, [k] + a, 300, (a[1] if (tier != "quick" and idx % 2) else 0)): (k, a)
                for idx, (k, a) in enumerate(scen)}
        for f in concurrent.futures.as_completed(futs):
            k, a = futs[f]
            rc, out, errtxt = f.result()
            sc_hist[k] += 1
            sc_events += sum(1 for l in out if l.startswith("E "))
            sc_rounds += sum(1 for l in out if l.startswith(("R ", "H ", "L ", "Q ")))
            name = "%s_%s.log" % (k, "_".join(str(x) for x in a))
            if rc != 0:
                p = rep.replay_file(name, "# wb_pipeev %s %s (rc=%s)\n" % (k, " ".join(map(str, a)), rc) + "\n".join(out[-200:]) + "\n" + errtxt[:6000] + "\n...\n" + errtxt[-1500:])
                key = san_key(errtxt, bool(out) and out[-1].endswith("-done"))
                rep.violation(p, "scenario %s %s crashed / sanitizer report / hung (rc=%s): %s" % (k, a, rc, san_summary(errtxt) or errtxt[-200:]), key=key)
                wleak = False
                if not wleak:
                    continue
            bad = scen_oracle(k, out)
            if bad and bad.startswith("liveness: "):
                # a liveness clause failed within its real-time allowance: confirm on the same input (a loaded machine
                # may starve the library's threads for seconds); it counts when it fails again at least once in two re-runs
                again = 0
                for _ in range(2):
                    confirmations["reruns"] += 1
                    rc2, out2, err2 = run_scen(impl, [k] + a, 300)
                    b2 = scen_oracle(k, out2) if rc2 == 0 else None
                    if b2 and b2.startswith("liveness: "):
                        again += 1
                        break
                if again == 0:
                    confirmations["not_confirmed"] += 1
                    bad = None
            if bad:
                p = rep.replay_file(name, "# wb_pipeev %s %s\n# %s\n" % (k, " ".join(map(str, a)), bad) + "\n".join(out) + "\n")
                rep.violation(p, "C14 (%s %s): %s" % (k, a[0], bad))
    t_sections["scenarios_s"] = round(time.time() - rep.t0 - t_sections["prelude_s"] - t_sections["scripted_s"], 1)
    rep.cov["wall_sections"] = t_sections
    if shape_bad and not rep.violations:
        p = rep.replay_file("shape_changed.txt", "the source no longer has the shape the C14 models were written from:\n" + "\n".join(l for l in mine if any(s in l for s in shape_bad)))
        rep.violation(p, "C14: code shape changed (%s): the models no longer correspond to the source; no input violating the property found" % ", ".join(shape_bad), nofail=True)
    if not proof_ok and not rep.violations:
        proof_broken_report(rep, cb, "C14 theorems do not check (%s)" % ("; ".join(gate[:3]) if gate else msg if not ok else "see log"))
    rep.cov.update({
        "distinct_nontrivial": len(set(hash(tuple(c)) for c in cases)),
        "scripted_cases": len(cases), "scripted_lines_compared": lines_cmp, "scripted_divergences": len(diverged),
        "real_time_skips": rt_skips, "schedule_dependent_skips": sched_skips, "op_histogram": hist, "model_flags": flags,
        "scenarios": sc_hist, "liveness_confirmations": confirmations, "scenario_pipe_events": sc_events, "scenario_rounds": sc_rounds,
        "rule": "scripted: random scripts over bus0/pair0/pair1 sockets with 0-2 deterministic listeners and 0-2 deterministic dialers (harness/wb_pipeev.c: every accept/connect completion, result code, peer loss, pipe/endpoint/socket close, callback that closes its pipe, notify mask, reconnect option, clock advance is a command), implementation vs extracted models line by line + oracle (order/at-most-once, REM_POST by close, reject-in-ADD_PRE carries no I/O, one pipe per dialer, delay left < larger reconnect time, timer armed after loss/failed dial, accept re-armed or cooling down); real: 3 bus sockets, 3-6 listeners, 4-10 dialers over tcp/ipc/inproc, random pipe closes, rejections in ADD_PRE/ADD_POST, endpoint closes, sends, clock advances, sockets closed in random order, oracle on the callback log; redial: raw TCP/UNIX listener that resets / garbles / mis-negotiates / accepts-then-drops, virtual clock advanced by the larger reconnect time per round; hostile: raw client (resets before accept, garbage and short handshakes, foreign protocol, silent hold until the negotiation timeout, bursts) with a control client that must connect and be seen by the listener each time; lrestart: a listener closed and re-opened at the same address (inproc/ipc/tcp) while 2-3 open dialers are queued on it behind a slow ADD_PRE callback, in handshake or connected -- each must hold a pipe to the new listener once the larger reconnect time has passed on the virtual clock (failures of liveness clauses are confirmed by re-runs); socket-fd listener queue: see sfd_listen_queue",
        "samples": [cases[0][:16]] if cases else [],
        "only_observed": ["real thread schedules (the scripted cases are quiescent between commands; the real scenarios sample schedules)",
                          "the transports' and streams' result codes (theorem listener_stop_codes_only_by_close_partial assumes src_ok)",
                          "random draws: only what is left of a delay is read (a_expire - now), never more than the delay itself"]})
    rep.assumptions += ["mutual exclusion of s_mx / s_pipe_cbs_mtx / the static `serialize` mutex and atomicity of p_closed are trusted",
                        "nni_aio_stop's guarantee (C02 aio_stop_quiesces) for endpoint callbacks",
                        "streams / platform accept do not deliver NNG_ECONNABORTED, NNG_ESTOPPED, NNG_ECANCELED while the endpoint is open (src_ok)",
                        "d_currtime / d_inirtime / d_maxrtime are written under d_mtx by setopt and under s_mx by the timer code (different locks): modelled as atomic steps"]
    return rep.finish()
