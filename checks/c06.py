# C06 -- PUSH/PULL: each message to at most one puller, none lost while connected, per-connection send order,
# back-pressure (DESIGN 5/C06, 11.8: the order law is over SUBMISSION order)
import random
from protolib import *

KEY_RESIZE = "push-resize-overtakes-blocked"
KNOWN_TEXT = {
    KEY_RESIZE: "push.c push0_set_send_buf_len leaves blocked senders on the wait list when NNG_OPT_SENDBUF grows: a later send is buffered "
                "ahead of them and one connection carries the messages out of send order (sends 1 2 [blocked], SENDBUF:=2, send 3 => wire 3 1 2; "
                "findings/c06/push-resize-overtakes-blocked.txt; PushSubmit.push_submission_order_refuted_pinned is this run)",
}
FOUND = []          # (key, case, op index, text)
PUSH, PULL = 80, 81
WRONG_PEERS = [80, 48, 49, 16, 17, 32, 33, 98, 99, 112, 0, 65535]    # anything but PULL (81)

NEED = ["push_conservation_step", "push_conservation", "push_per_pipe_fifo", "push_blocks_when_full", "push_nonblocking_send",
        "pull_conservation_step", "pull_conservation", "pushpull_conservation", "push_guard_is_push_step_r",
        "push_repaired_resize_keeps_laws", "push_closed_pipe_never_ready", "push_current_source_guarded",
        "push_submission_order_step", "push_submission_order", "push_per_connection_send_order",
        "push_cancel_removes_exactly_that_message", "push_submission_order_pinned_resize_refuted",
        "push_submission_order_repaired_on_witness", "push_rejected_pipe_takes_nothing", "push_source_shape"]


def consts():
    txt = open(os.path.join(COQ, "Gen", "Consts.v")).read()
    m = re.search(r"Definition C06_PUSH_RESIZE_ADMITS_FIXED : bool := (\w+)\.", txt)
    return {"resize_fixed": (m.group(1) == "true") if m else None}


# ------------------------------------------------------------------ generators
def gen_push_case(rng):
    """random history on a PUSH socket (also used by checks/c03.py)"""
    lines = ["open s0 push0%s" % ("_raw" if rng.random() < 0.15 else "")]
    npipes, naio, nmsg = 0, 0, 0
    if rng.random() < 0.5:
        lines.append("setopt s0 send-buffer int %d" % rng.choice([0, 1, 2, 3, 4, 8]))
    for _ in range(rng.randrange(3, 60)):
        r = rng.random()
        if r < 0.12 and npipes < 6:
            lines.append("conn s0 %d" % (81 if rng.random() < 0.93 else 80)); npipes += 1
        elif r < 0.42:
            nmsg += 1; lines.append("sendnb s0 - %04x" % nmsg)
        elif r < 0.55 and naio < 60:
            nmsg += 1; lines.append("send s0 a%d - %04x" % (naio, nmsg)); naio += 1
        elif r < 0.80 and npipes:
            lines.append("sent p%d%s" % (rng.randrange(npipes), " 31" if rng.random() < 0.04 else ""))
        elif r < 0.85 and npipes:
            lines.append("drop p%d" % rng.randrange(npipes))
        elif r < 0.88 and npipes:
            lines.append("inject p%d %02x" % (rng.randrange(npipes), rng.randrange(256)))
        elif r < 0.94:
            lines.append("setopt s0 send-buffer int %d" % rng.choice([0, 1, 2, 3, 4, 8]))
        elif r < 0.98 and naio:
            lines.append("cancel a%d" % rng.randrange(naio))
        else:
            lines.append("poll")
    # drain: a fresh puller takes whatever is still buffered
    lines.append("conn s0 81"); npipes += 1
    for _ in range(12):
        for p in range(npipes):
            lines.append("sent p%d" % p)
    if rng.random() < 0.5:
        lines.append("close s0")
    return lines


def _drain(lines, npipes, rounds):
    for _ in range(rounds):
        for p in range(npipes):
            lines.append("sent p%d" % p)


def gen_blocked_case(rng):
    """2..5 senders blocked at the same time (SENDBUF 0/1/2, set before any send and never changed), some of them
    cancelled or timed out, then pullers arriving one at a time and transport acknowledgements one at a time, with
    further sends in between.  No connection is lost, nothing is resized: every message whose send succeeds must
    come out, and every connection must carry its messages in the order the sends were SUBMITTED."""
    lines = ["open s0 push0%s" % ("_raw" if rng.random() < 0.1 else "")]
    cap = rng.choice([0, 0, 1, 1, 2])
    if cap or rng.random() < 0.3:
        lines.append("setopt s0 send-buffer int %d" % cap)
    st = {"naio": 0, "nmsg": 0, "blocked": [], "npipes": 0}

    def send(blocking=True, tmo=False):
        st["nmsg"] += 1
        if blocking and st["naio"] < 60:
            a = st["naio"]; st["naio"] += 1
            if tmo:
                lines.append("aiotmo a%d %d" % (a, rng.choice([100, 250, 1000])))
            lines.append("send s0 a%d - %04x" % (a, st["nmsg"]))
            st["blocked"].append(a)
        else:
            lines.append("sendnb s0 - %04x" % st["nmsg"])

    for _ in range(cap):                              # fill the buffer
        send(blocking=rng.random() < 0.5)
    k = rng.randrange(2, 6)
    timed = rng.random() < 0.3
    for j in range(k):                                # k senders block
        send(True, tmo=timed and rng.random() < 0.4)
        if rng.random() < 0.15:
            lines.append("sendnb s0 - %04x" % (0x8000 + st["nmsg"]))     # refused on the spot: NNG_EAGAIN, never entered
    for _ in range(rng.choice([0, 0, 1, 1, 2])):      # some give up
        if st["blocked"]:
            lines.append("cancel a%d" % rng.choice(st["blocked"]))
    if timed:
        lines.append("advance %d" % rng.choice([2100, 5000]))
    # pullers arrive one at a time; acknowledgements one at a time; later submissions in between
    for _ in range(rng.randrange(4, 22)):
        r = rng.random()
        if (r < 0.22 and st["npipes"] < 3) or st["npipes"] == 0:
            lines.append("conn s0 81"); st["npipes"] += 1
        elif r < 0.62:
            lines.append("sent p%d" % rng.randrange(st["npipes"]))
        elif r < 0.80:
            send(True)
        elif r < 0.88:
            send(False)
        elif r < 0.94 and st["blocked"]:
            lines.append("cancel a%d" % rng.choice(st["blocked"]))
        else:
            lines.append("poll")
    if st["npipes"] == 0 or rng.random() < 0.3:
        lines.append("conn s0 81"); st["npipes"] += 1
    _drain(lines, st["npipes"], 12 + st["nmsg"] // max(1, st["npipes"]))
    return lines


def gen_reject_case(rng):
    """buffered and blocked messages, then one or more peers of the WRONG protocol (refused by push0_pipe_start), then
    a real puller: a refused connection was never valid, so it must not take (and lose) a message -- all of them come
    out on the puller, in order."""
    lines = ["open s0 push0%s" % ("_raw" if rng.random() < 0.1 else "")]
    cap = rng.choice([0, 1, 2, 3, 4])
    if cap or rng.random() < 0.3:
        lines.append("setopt s0 send-buffer int %d" % cap)
    naio, nmsg, npipes, nref = 0, 0, 0, 0
    for _ in range(cap):
        nmsg += 1
        if rng.random() < 0.6:
            lines.append("sendnb s0 - %04x" % nmsg)
        else:
            lines.append("send s0 a%d - %04x" % (naio, nmsg)); naio += 1
    for _ in range(rng.randrange(0 if cap else 1, 4)):
        nmsg += 1; lines.append("send s0 a%d - %04x" % (naio, nmsg)); naio += 1
    for _ in range(rng.randrange(1, 5)):
        lines.append("conn s0 %d" % rng.choice(WRONG_PEERS)); npipes += 1
        if rng.random() < 0.3:
            nmsg += 1; lines.append("send s0 a%d - %04x" % (naio, nmsg)); naio += 1
        if rng.random() < 0.2:
            nref += 1; lines.append("sendnb s0 - %04x" % (0x8000 + nref))     # buffer full, no puller: NNG_EAGAIN
    good = []
    for _ in range(rng.choice([1, 1, 2])):
        lines.append("conn s0 81"); good.append(npipes); npipes += 1
        if rng.random() < 0.3:
            lines.append("conn s0 %d" % rng.choice(WRONG_PEERS)); npipes += 1
    for _ in range(nmsg + 3):
        for p in good:
            lines.append("sent p%d" % p)
    return lines


# the run of PushSubmit.resize_witness / its SENDBUF-1 form (the known finding until push.c is repaired; the
# repaired text must give 1 2 3 / 1 2 3 4) and the schedules of the two round-2 seeded changes
DIRECTED = [
    ["open s0 push0", "send s0 a0 - 0001", "send s0 a1 - 0002", "setopt s0 send-buffer int 2", "send s0 a2 - 0003",
     "conn s0 81", "sent p0", "sent p0", "sent p0", "sent p0"],
    ["open s0 push0", "setopt s0 send-buffer int 1", "send s0 a0 - 0001", "send s0 a1 - 0002", "send s0 a2 - 0003",
     "setopt s0 send-buffer int 3", "send s0 a3 - 0004", "conn s0 81", "sent p0", "sent p0", "sent p0", "sent p0", "sent p0"],
    ["open s0 push0", "send s0 a0 - 0001", "send s0 a1 - 0002", "send s0 a2 - 0003", "send s0 a3 - 0004",
     "conn s0 81", "sent p0", "sent p0", "sent p0", "sent p0", "sent p0"],
    ["open s0 push0", "setopt s0 send-buffer int 1", "send s0 a0 - 0001", "send s0 a1 - 0002", "send s0 a2 - 0003", "send s0 a3 - 0004",
     "conn s0 81", "sent p0", "sent p0", "sent p0", "sent p0", "sent p0"],
    ["open s0 push0", "setopt s0 send-buffer int 1", "send s0 a0 - 0001", "send s0 a1 - 0002", "send s0 a2 - 0003", "send s0 a3 - 0004",
     "cancel a2", "conn s0 81", "sent p0", "sent p0", "sent p0", "sent p0"],
    ["open s0 push0", "setopt s0 send-buffer int 4", "sendnb s0 - 0001", "sendnb s0 - 0002", "sendnb s0 - 0003",
     "conn s0 80", "conn s0 80", "conn s0 49", "conn s0 81", "sent p3", "sent p3", "sent p3", "sent p3"],
    ["open s0 push0", "setopt s0 send-buffer int 2", "sendnb s0 - 0001", "sendnb s0 - 0002", "send s0 a0 - 0003",
     "conn s0 80", "conn s0 80", "conn s0 81", "sent p2", "sent p2", "sent p2", "sent p2"],
]


def gen_pull_case(rng):
    lines = ["open s0 pull0%s" % ("_raw" if rng.random() < 0.15 else "")]
    npipes, naio, nmsg = 0, 0, 0
    for _ in range(rng.randrange(3, 60)):
        r = rng.random()
        if r < 0.14 and npipes < 6:
            lines.append("conn s0 %d" % (80 if rng.random() < 0.93 else 81)); npipes += 1
        elif r < 0.45 and npipes:
            nmsg += 1; lines.append("inject p%d %04x" % (rng.randrange(npipes), nmsg))
        elif r < 0.62:
            lines.append("recvnb s0")
        elif r < 0.80 and naio < 60:
            lines.append("recv s0 a%d" % naio); naio += 1
        elif r < 0.86 and npipes:
            lines.append("drop p%d" % rng.randrange(npipes))
        elif r < 0.92 and naio:
            lines.append("cancel a%d" % rng.randrange(naio))
        elif r < 0.95:
            lines.append("sendnb s0 - 00")
        else:
            lines.append("poll")
    for _ in range(10):
        lines.append("recvnb s0")
    if rng.random() < 0.5:
        lines.append("close s0")
    return lines


# ------------------------------------------------------------------ spec oracle
def oracle_push(case, obs):
    """C06 for a PUSH socket, on the implementation's own observations.
    send order = SUBMISSION order: the order of the `send` / `sendnb` lines (a send refused on the spot -- NNG_EAGAIN --
    or failed later -- cancelled, timed out, socket closed -- left its message with the caller and does not count)."""
    sub_line = {}            # body -> index of the line that submitted it (its place in submission order)
    pending_aio = {}         # aio -> body of a blocking send not yet completed
    accepted = []            # bodies whose send completed with success, in acceptance (= buffer) order
    refused = set()          # bodies whose send failed: never to be transmitted
    seen_tx = {}             # body -> pipe it was handed to
    cur_tx = {}              # pipe -> body pending on the transport
    tx_order = {}            # pipe -> bodies in hand-over order
    valid = {}               # pipe -> the peer is a PULL socket
    lost_ok = set()          # bodies that may be lost: their connection went down with them, the buffer was shrunk over
                             # them, or the socket was closed
    grows = []               # (line, bodies blocked at that line) for every NNG_OPT_SENDBUF increase
    cap = 0                  # NNG_OPT_SENDBUF (push0_sock_init: unbuffered)
    closed = False
    resize_hits = []
    for k, line in enumerate(case):
        t = line.split()
        o = obs[k] if k < len(obs) else None
        if o is None:
            return (k, "no observation")
        if closed:
            continue
        if t[0] == "sendnb":
            body = t[3]
            if o["rv"] == 0:
                sub_line[body] = k; accepted.append(body)
            elif o["rv"] in (8, 7, 5):
                refused.add(body)
            else:
                return (k, "unexpected result %d of a non-blocking send" % o["rv"])
        elif t[0] == "send" and o["rv"] == 0:
            pending_aio[int(t[2][1:])] = t[4]; sub_line[t[4]] = k
        elif t[0] == "conn" and o["newpipe"] is not None:
            valid[o["newpipe"]] = (int(t[2]) == PULL)
        elif t[0] == "drop" or (t[0] == "sent" and len(t) > 2 and int(t[2]) != 0):
            # the connection goes down: the message it was carrying may be lost with it (the property's exemption)
            b = cur_tx.get(int(t[1][1:]))
            if b is not None and o["rv"] == 0:
                lost_ok.add(b)
        elif t[0] == "setopt" and t[2] == "send-buffer" and o["rv"] == 0:
            n = int(t[4])
            buffered = [b for b in accepted if b not in seen_tx and b not in lost_ok]
            if n < len(buffered):
                # documented lossy resize, OUTSIDE the property: nni_lmq_resize keeps the oldest n messages and frees the
                # excess (push_test test_push_send_buffer expects it; DESIGN 5/C06 "explicit buffer shrink"; stated in the
                # theorems as sub_loss / freed).  Exactly the excess is excused, nothing else.
                lost_ok.update(buffered[n:])
            if n > cap and pending_aio:
                grows.append((k, set(pending_aio.values())))
            cap = n
        elif t[0] == "close":
            closed = True
        done_now = []
        for a, rv, extra in o["done"]:
            if a in pending_aio:
                b = pending_aio.pop(a)
                if rv == 0:
                    done_now.append(b)
                else:
                    refused.add(b)
                    if extra != "kept":
                        return (k, "failed send (rv=%d) did not leave the message with the caller" % rv)
        accepted += sorted(done_now, key=lambda b: sub_line[b])
        if closed:
            continue
        for i, p in o["pipes"].items():
            tx = p.get("tx")
            b = tx.split("/")[1] if tx else None
            if p.get("nt", 0) > 1:
                return (k, "more than one transport send pending on a pipe")
            if b != cur_tx.get(i):
                if b is not None:
                    if b in seen_tx:
                        return (k, "message %s handed to the transport twice (pipes %s and %d)" % (b, seen_tx[b], i))
                    if b in refused:
                        return (k, "message %s was refused to the caller but transmitted anyway" % b)
                    if b not in sub_line:
                        return (k, "message %s transmitted but never sent by the application" % b)
                    if not valid.get(i, True):
                        return (k, "message %s handed to connection p%d whose peer is not a PULL socket (the protocol refuses it)" % (b, i))
                    # per-connection send order: nothing submitted later may have gone out on this connection before
                    for x in tx_order.get(i, []):
                        if sub_line[x] > sub_line[b]:
                            # the unrepaired push0_set_send_buf_len: x was submitted after a buffer increase during which
                            # b's sender was blocked (known finding; reported under its key, everything else is not excused)
                            if any(sub_line[x] > gk and b in blk for gk, blk in grows):
                                resize_hits.append((k, "connection p%d carries %s (sent after the buffer grew) before %s (blocked at that time)" % (i, x, b)))
                            else:
                                return (k, "connection p%d carries message %s before %s although %s was sent first (send order = order of submission)" % (i, x, b, b))
                    seen_tx[b] = i
                    tx_order.setdefault(i, []).append(b)
                cur_tx[i] = b
    if resize_hits:
        FOUND.append((KEY_RESIZE, case, resize_hits[0][0], resize_hits[0][1]))
    if not closed:
        # a ready puller (connection up, its transport idle) and still something accepted that never went out: with a
        # pipe on the ready list the buffer is empty, so the message is gone.  Connections that went down with a message,
        # the excess of a shrink and the socket close are excused above; a connection the protocol REFUSED (wrong peer
        # protocol) was never up and excuses nothing.
        last = obs[len(case) - 1] if len(obs) >= len(case) else None
        if last and any(p.get("st") == "o" and p.get("nt") == 0 and valid.get(i, True) for i, p in last["pipes"].items()):
            missing = [b for b in accepted if b not in seen_tx and b not in lost_ok]
            if missing:
                return (len(case) - 1, "accepted messages %s never reached any puller although a puller is connected and idle and no "
                        "connection carrying them went down" % missing[:4])
    return None


def oracle_pull(case, obs):
    injected = {}            # pipe -> [bodies in order]
    delivered = []           # (body)
    lost_ok = set()
    for k, line in enumerate(case):
        t = line.split()
        o = obs[k] if k < len(obs) else None
        if o is None:
            return (k, "no observation")
        if t[0] == "inject" and o["rv"] == 0:
            injected.setdefault(int(t[1][1:]), []).append(t[2])
        if t[0] in ("drop", "close"):
            # messages not yet delivered on that pipe may be lost with the connection
            for i, seq in injected.items():
                if t[0] == "close" or i == int(t[1][1:]):
                    lost_ok.update(seq)
        got = []
        if o["got"]:
            got.append(o["got"].split("/")[1])
        for a, rv, extra in o["done"]:
            if rv == 0 and extra:
                got.append(extra.split("/")[1])
        for b in got:
            if b in delivered:
                return (k, "message %s delivered twice" % b)
            if not any(b in seq for seq in injected.values()):
                return (k, "message %s delivered but never sent by a pusher" % b)
            delivered.append(b)
    for i, seq in injected.items():
        pos = [seq.index(b) for b in delivered if b in seq]
        if pos != sorted(pos):
            return (len(case) - 1, "messages of connection %d delivered out of order" % i)
        # no gaps: a delivered message implies all earlier ones of that pipe were delivered
        d = [b for b in seq if b in delivered]
        if d and seq[:len(d)] != d:
            return (len(case) - 1, "connection %d: a message was skipped (%s delivered of %s)" % (i, d, seq))
    # every pipe that is still open at the end had all its messages delivered after the final drain
    last = obs[-1]
    if last and not case[-1].startswith("close"):
        for i, seq in injected.items():
            if last["pipes"].get(i, {}).get("st") == "o":
                miss = [b for b in seq if b not in delivered and b not in lost_ok]
                if miss and len([l for l in case if l == "recvnb s0"]) >= 10 and all((obs[j] and obs[j]["rv"] == 8) for j in range(len(case) - 3, len(case)) if case[j] == "recvnb s0"):
                    return (len(case) - 1, "messages %s lost although their connection stayed up" % miss[:4])
    return None


def oracle(case, obs, raw):
    """C06 on the implementation's own observations."""
    proto = case[0].split()[2]
    return oracle_push(case, obs) if proto.startswith("push") else oracle_pull(case, obs)


def run(tier, seed, replay=None):
    rep = Report("C06", tier, seed)
    if os.environ.get("NNGV_C06_ASSUME_KNOWN"):      # development aid: treat the findings of KNOWN_TEXT as recorded
        for k, v in KNOWN_TEXT.items():
            rep.known.setdefault(k, v)
    proof_ok, cb, bdir, why = std_prelude(rep, "C06", "Properties_C06", "c06")
    if bdir is None:
        return rep.finish()
    cs = consts()
    del FOUND[:]
    rng = random.Random(seed)
    n = 200 if tier == "quick" else 6000
    if replay:
        cases = [[l.strip() for l in open(replay) if l.strip() and not l.startswith("#")]]
    else:
        cases = load_corpus("C06") + [list(c) for c in DIRECTED]
        for i in range(n):
            cases.append(gen_push_case(rng) if i % 2 == 0 else gen_pull_case(rng))
            if i % 2 == 0:
                cases.append(gen_blocked_case(rng))
            if i % 4 == 1:
                cases.append(gen_reject_case(rng))
    proto_run(rep, "C06", tier, bdir, cases, oracle, label="PUSH/PULL")
    missing = [t for t in NEED if t not in cb.get("theorems", [])]
    if proof_ok and missing:
        proof_ok, why = False, "theorems missing from Properties_C06: %s" % ", ".join(missing)
    if FOUND:
        key, case, k, text = FOUND[0]
        p = rep.replay_file("known_%s.case" % key, "# %s\n# %s at op %d (%s); %d cases of this run\n" % (KNOWN_TEXT[key], text, k, case[min(k, len(case) - 1)], len(FOUND))
                            + "\n".join(case) + "\n")
        if cs["resize_fixed"]:
            rep.violation(p, "PUSH/PULL: push.c has the repaired push0_set_send_buf_len but a send still overtakes blocked senders after the buffer grew: %s" % text)
        else:
            rep.violation(p, "PUSH/PULL: %s (%d cases in this run; the model follows the source: fixed=%s)" % (KNOWN_TEXT[key], len(FOUND), cs["resize_fixed"]), key=key)
    rep.cov["resize_overtakes_blocked_cases"] = len(FOUND)
    rep.cov["push_resize_admits_fixed"] = cs["resize_fixed"]
    if not proof_ok and not rep.violations:
        proof_broken_report(rep, cb, "C06 theorems do not check (%s)" % why)
    rep.cov["rule"] = ("histories on a PUSH or PULL socket over the deterministic transport, same script on the real library and on the extracted model: "
                       "(a) random: connects (right and wrong peer), blocking/non-blocking sends and receives, transport completions one at a time, peer loss, "
                       "buffer resizes, cancels, a final drain; (b) 2..5 senders blocked at once with SENDBUF 0/1/2, cancels and aio timeouts of some, pullers and "
                       "acknowledgements arriving one at a time (per-connection order = submission order, nothing lost); (c) buffered + blocked messages, wrong-protocol "
                       "peers (refused at pipe start), then a puller (a refused connection takes nothing); (d) the witness schedules of PushSubmit.v; "
                       "non-trivial = some message moves; distinct = distinct scripts")
    return rep.finish()
