# C06 -- PUSH/PULL: each message to at most one puller, none lost while connected (DESIGN 5/C06)
import random
from protolib import *


def gen_push_case(rng):
    lines = ["open s0 push0%s" % ("_raw" if rng.random() < 0.15 else "")]
    npipes, naio, nmsg = 0, 0, 0
    if rng.random() < 0.5:
        lines.append("setopt s0 send-buffer int %d" % rng.choice([0, 1, 2, 3, 4, 8]))
    for _ in range(rng.randrange(3, 60)):
        r = rng.random()
        if r < 0.12 and npipes < 6:
            lines.append("conn s0 %d" % (81 if rng.random() < 0.93 else 80)); npipes += 1
        elif r < 0.42:
            nmsg += 1; lines.append("sendnb s0 - %04x" % nmsg)
        elif r < 0.55 and naio < 60:
            nmsg += 1; lines.append("send s0 a%d - %04x" % (naio, nmsg)); naio += 1
        elif r < 0.80 and npipes:
            lines.append("sent p%d%s" % (rng.randrange(npipes), " 31" if rng.random() < 0.04 else ""))
        elif r < 0.85 and npipes:
            lines.append("drop p%d" % rng.randrange(npipes))
        elif r < 0.88 and npipes:
            lines.append("inject p%d %02x" % (rng.randrange(npipes), rng.randrange(256)))
        elif r < 0.94:
            lines.append("setopt s0 send-buffer int %d" % rng.choice([0, 1, 2, 3, 4, 8]))
        elif r < 0.98 and naio:
            lines.append("cancel a%d" % rng.randrange(naio))
        else:
            lines.append("poll")
    # drain: a fresh puller takes whatever is still buffered
    lines.append("conn s0 81"); npipes += 1
    for _ in range(12):
        for p in range(npipes):
            lines.append("sent p%d" % p)
    if rng.random() < 0.5:
        lines.append("close s0")
    return lines


def gen_pull_case(rng):
    lines = ["open s0 pull0%s" % ("_raw" if rng.random() < 0.15 else "")]
    npipes, naio, nmsg = 0, 0, 0
    for _ in range(rng.randrange(3, 60)):
        r = rng.random()
        if r < 0.14 and npipes < 6:
            lines.append("conn s0 %d" % (80 if rng.random() < 0.93 else 81)); npipes += 1
        elif r < 0.45 and npipes:
            nmsg += 1; lines.append("inject p%d %04x" % (rng.randrange(npipes), nmsg))
        elif r < 0.62:
            lines.append("recvnb s0")
        elif r < 0.80 and naio < 60:
            lines.append("recv s0 a%d" % naio); naio += 1
        elif r < 0.86 and npipes:
            lines.append("drop p%d" % rng.randrange(npipes))
        elif r < 0.92 and naio:
            lines.append("cancel a%d" % rng.randrange(naio))
        elif r < 0.95:
            lines.append("sendnb s0 - 00")
        else:
            lines.append("poll")
    for _ in range(10):
        lines.append("recvnb s0")
    if rng.random() < 0.5:
        lines.append("close s0")
    return lines


def oracle(case, obs, raw):
    """C06 on the implementation's own observations."""
    proto = case[0].split()[2]
    if proto.startswith("push"):
        accepted = []            # bodies accepted by the socket, in acceptance order
        pending_aio = {}         # aio -> body
        refused = set()
        seen_tx = {}             # body -> pipe it was handed to
        cur_tx = {}              # pipe -> body currently pending
        tx_order = {}            # pipe -> [bodies]
        lossy = False            # a pipe was lost with a message in flight / buffer shrunk / socket closed
        for k, line in enumerate(case):
            t = line.split()
            o = obs[k] if k < len(obs) else None
            if o is None:
                return (k, "no observation")
            if t[0] == "sendnb":
                body = t[3]
                if o["rv"] == 0:
                    accepted.append(body)
                elif o["rv"] in (8, 7, 5):
                    refused.add(body)
                else:
                    return (k, "unexpected result %d of a non-blocking send" % o["rv"])
            elif t[0] == "send":
                pending_aio[int(t[2][1:])] = t[4]
            elif t[0] in ("drop", "close") or (t[0] == "sent" and len(t) > 2) or (t[0] == "setopt"):
                lossy = True
            for a, rv, extra in o["done"]:
                if a in pending_aio:
                    b = pending_aio.pop(a)
                    if rv == 0:
                        accepted.append(b)
                    else:
                        refused.add(b)
                        if extra != "kept":
                            return (k, "failed send did not leave the message with the caller")
            for i, p in o["pipes"].items():
                tx = p.get("tx")
                b = tx.split("/")[1] if tx else None
                if p.get("nt", 0) > 1:
                    return (k, "more than one transport send pending on a pipe")
                if b != cur_tx.get(i):
                    if b is not None:
                        if b in seen_tx:
                            return (k, "message %s handed to the transport twice (pipes %s and %d)" % (b, seen_tx[b], i))
                        if b in refused:
                            return (k, "message %s was refused to the caller but transmitted anyway" % b)
                        if b not in accepted and b not in pending_aio.values():
                            return (k, "message %s transmitted but never sent by the application" % b)
                        seen_tx[b] = i
                        tx_order.setdefault(i, []).append(b)
                    cur_tx[i] = b
        for i, seq in tx_order.items():
            pos = [accepted.index(b) for b in seq if b in accepted]
            if pos != sorted(pos):
                return (len(case) - 1, "pipe %d carries messages out of acceptance order" % i)
        if not lossy:
            missing = [b for b in accepted if b not in seen_tx]
            if missing:
                return (len(case) - 1, "accepted messages never reached any puller although all connections stayed up: %s" % missing[:4])
        return None
    else:
        injected = {}            # pipe -> [bodies in order]
        delivered = []           # (body)
        lost_ok = set()
        for k, line in enumerate(case):
            t = line.split()
            o = obs[k] if k < len(obs) else None
            if o is None:
                return (k, "no observation")
            if t[0] == "inject" and o["rv"] == 0:
                injected.setdefault(int(t[1][1:]), []).append(t[2])
            if t[0] in ("drop", "close"):
                # messages not yet delivered on that pipe may be lost with the connection
                for i, seq in injected.items():
                    if t[0] == "close" or i == int(t[1][1:]):
                        lost_ok.update(seq)
            got = []
            if o["got"]:
                got.append(o["got"].split("/")[1])
            for a, rv, extra in o["done"]:
                if rv == 0 and extra:
                    got.append(extra.split("/")[1])
            for b in got:
                if b in delivered:
                    return (k, "message %s delivered twice" % b)
                if not any(b in seq for seq in injected.values()):
                    return (k, "message %s delivered but never sent by a pusher" % b)
                delivered.append(b)
        for i, seq in injected.items():
            pos = [seq.index(b) for b in delivered if b in seq]
            if pos != sorted(pos):
                return (len(case) - 1, "messages of connection %d delivered out of order" % i)
            # no gaps: a delivered message implies all earlier ones of that pipe were delivered
            d = [b for b in seq if b in delivered]
            if d and seq[:len(d)] != d:
                return (len(case) - 1, "connection %d: a message was skipped (%s delivered of %s)" % (i, d, seq))
        # every pipe that is still open at the end had all its messages delivered after the final drain
        last = obs[-1]
        if last and not case[-1].startswith("close"):
            for i, seq in injected.items():
                if last["pipes"].get(i, {}).get("st") == "o":
                    miss = [b for b in seq if b not in delivered and b not in lost_ok]
                    if miss and len([l for l in case if l == "recvnb s0"]) >= 10 and all((obs[j] and obs[j]["rv"] == 8) for j in range(len(case) - 3, len(case)) if case[j] == "recvnb s0"):
                        return (len(case) - 1, "messages %s lost although their connection stayed up" % miss[:4])
        return None


def run(tier, seed, replay=None):
    rep = Report("C06", tier, seed)
    proof_ok, cb, bdir, why = std_prelude(rep, "C06", "Properties_C06", "c06")
    if bdir is None:
        return rep.finish()
    rng = random.Random(seed)
    n = 200 if tier == "quick" else 6000
    if replay:
        cases = [[l.strip() for l in open(replay) if l.strip() and not l.startswith("#")]]
    else:
        cases = load_corpus("C06") + [gen_push_case(rng) if i % 2 == 0 else gen_pull_case(rng) for i in range(n)]
    proto_run(rep, "C06", tier, bdir, cases, oracle, label="PUSH/PULL")
    if not proof_ok and not rep.violations:
        proof_broken_report(rep, cb, "C06 theorems do not check (%s)" % why)
    rep.cov["rule"] = ("random histories on a PUSH or PULL socket over the deterministic transport: connects (right and wrong peer), blocking/non-blocking sends and receives, "
                       "transport completions one at a time, peer loss, buffer resizes, cancels, a final drain; same script on the real library and on the extracted model; "
                       "non-trivial = some message moves; distinct = distinct scripts")
    return rep.finish()
