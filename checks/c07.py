# C07 -- SURVEY: only responses to the current survey, only before its deadline (DESIGN 5/C07)
import os, random, subprocess, time
from protolib import *

T_CHOICES = [3000, 5000, 10000]
SEND_BUF = 8          # survey.c per-pipe queue depth (checked against Gen/Consts.v by survey_consts_match)
KEYS = {
    "surveyor-nb-recv-waits": "survey.c surv0_ctx_recv clamps the expiry of a NONBLOCK receive (timeout 0 < 1) to the survey deadline: nng_recvmsg(NNG_FLAG_NONBLOCK) on a surveyor with a live survey and no response waits until the deadline and retires the survey",
    "respondent-nb-send-eagain": "respond.c resp0_ctx_send calls nni_aio_start before looking at its state (and clears the send descriptor first): NONBLOCK send returns NNG_EAGAIN although a survey is pending and its pipe is idle; the descriptor stays cleared although a blocking send succeeds",
    "respondent-writable-while-busy": "respond.c: the send descriptor is raised although the pipe of the socket's pending survey is busy (resp0_ctx_recv raising it unconditionally; a survey from a busy pipe replacing an unanswered one without clearing it; another context's response occupying the pipe): poll says writable, the send has to wait",
    "respondent-second-send-panics": "respond.c resp0_ctx_send queues a context behind a busy pipe although its previous send is still queued there: nni_list_append of a linked node (NNI_ASSERT panic; list corruption and a lost aio without assertions)",
    "respondent-readable-after-close": "respond.c resp0_pipe_close removes the last pipe holding a survey without clearing the receive descriptor: poll says readable, NONBLOCK receive returns NNG_EAGAIN",
    "raw-nb-eagain": "msgqueue.c: NONBLOCK operation on a raw surveyor/respondent socket returned NNG_EAGAIN although the descriptor was raised (or succeeded although it was not)",
}


# ---------------------------------------------------------------- generators
class SurvSim:
    """what the generator needs to know to aim: which survey ids are visible to the peers
    ([R<n>] tokens are assigned in order of first appearance at the head of a pipe),
    which responses are deliverable, where the clock is relative to the deadlines."""

    def __init__(self):
        self.now = 0
        self.pipes = []        # dict(open, txq=[survey seq])
        self.rid = {}          # survey seq -> R index
        self.nsurvey = 0
        self.tg = {}           # target -> dict(T, live(seq or None), expire, lmq, rq=[aio], old=[earlier seqs])
        self.dl = {}           # pending aio -> when it times out (its own timeout or the survey deadline, whichever is first)
        self.add_target("s0", 1000)

    def add_target(self, t, T):
        self.tg[t] = {"T": T, "live": None, "cur": None, "expire": 0, "lmq": 0, "rq": [], "old": []}

    def register(self):
        for p in self.pipes:
            if p["open"] and p["txq"] and p["txq"][0] not in self.rid:
                self.rid[p["txq"][0]] = len(self.rid)

    def survey(self, t):
        g = self.tg[t]
        g["rq"] = []
        g["lmq"] = 0
        seq = self.nsurvey
        self.nsurvey += 1
        if g["cur"] is not None:
            g["old"].append(g["cur"])
        g["live"] = g["cur"] = seq
        g["expire"] = self.now + g["T"]
        for p in self.pipes:
            if p["open"]:
                if not p["txq"]:
                    p["txq"].append(seq)
                elif len(p["txq"]) < 1 + SEND_BUF:
                    p["txq"].append(seq)
        self.register()
        return seq

    def owner(self, seq):
        for t, g in self.tg.items():
            if g["live"] == seq:
                return t
        return None

    def response(self, seq):
        t = self.owner(seq)
        if t is None:
            return
        g = self.tg[t]
        if g["rq"]:
            g["rq"].pop(0)
        elif g["lmq"] < 128:
            g["lmq"] += 1

    def advance(self, ms):
        self.now += ms
        for g in self.tg.values():
            gone = [a for a in g["rq"] if self.dl.get(a, g["expire"]) < self.now]
            if gone:       # any receive that times out retires the survey (surv0_ctx_cancel)
                g["rq"] = [a for a in g["rq"] if a not in gone]
                g["live"] = None

    def can_advance(self, ms):
        n = self.now + ms
        return (all(abs(n - g["expire"]) >= 1000 for g in self.tg.values() if g["cur"] is not None) and
                all(abs(n - self.dl[a]) >= 1000 for g in self.tg.values() for a in g["rq"] if a in self.dl))

    def recv_outcome(self, t):
        """'estate' | 'msg' | 'wait'"""
        g = self.tg[t]
        if g["live"] is None or self.now >= g["expire"]:
            return "estate"
        return "msg" if g["lmq"] > 0 else "wait"


def gen_surveyor_case(rng, nbfix):
    sim = SurvSim()
    lines = ["open s0 surveyor0"]
    if rng.random() < 0.7:
        T = rng.choice(T_CHOICES)
        lines.append("setopt s0 surveyor:survey-time ms %d" % T)
        sim.tg["s0"]["T"] = T
    nctx = rng.choice([0, 1, 1, 2, 3])
    targets = ["s0"]
    for c in range(nctx):
        lines.append("ctx c%d s0" % c)
        sim.add_target("c%d" % c, sim.tg["s0"]["T"])
        targets.append("c%d" % c)
        if rng.random() < 0.4:
            T = rng.choice(T_CHOICES)
            lines.append("setopt c%d surveyor:survey-time ms %d" % (c, T))
            sim.tg["c%d" % c]["T"] = T
    if nctx and rng.random() < 0.5:
        targets.remove("s0") if rng.random() < 0.3 else None
    for _ in range(rng.choice([1, 1, 2, 3])):
        lines.append("conn s0 99")
        sim.pipes.append({"open": True, "txq": []})
    naio, nmsg, nresp = 0, 0, 0
    pend = {}    # aio -> target
    for _ in range(rng.randrange(8, 55)):
        for a in [a for a, tt in pend.items() if a not in sim.tg[tt]["rq"]]:
            del pend[a]
        r = rng.random()
        openp = [i for i, p in enumerate(sim.pipes) if p["open"]]
        if r < 0.16:
            t = rng.choice(targets)
            nmsg += 1
            if rng.random() < 0.5 and naio < 60:
                lines.append("send %s a%d - aa%04x" % (t, naio, nmsg)); naio += 1
            else:
                lines.append("sendnb %s - aa%04x" % (t, nmsg))
            for a in [a for a, tt in pend.items() if tt == t]:
                del pend[a]
            sim.survey(t)
        elif r < 0.30 and naio < 60:
            t = rng.choice(targets)
            out = sim.recv_outcome(t)
            g = sim.tg[t]
            if rng.random() < 0.4:
                # a finite timeout of the receive itself: ending before, or (to be clamped) after the survey deadline
                left = g["expire"] - sim.now
                tmos = [x for x in (500, 1500, 2500, g["T"] - 500, g["T"], left - 1000, left + 1000, left + 3000)
                        if x > 0 and (out != "wait" or abs(sim.now + x - g["expire"]) >= 1000)]
                if tmos:
                    tmo = rng.choice(tmos)
                    lines.append("aiotmo a%d %d" % (naio, tmo))
                    if out == "wait":
                        sim.dl[naio] = min(sim.now + tmo, g["expire"])
            lines.append("recv %s a%d" % (t, naio))
            if out == "wait":
                sim.tg[t]["rq"].append(naio); pend[naio] = t
            elif out == "msg":
                sim.tg[t]["lmq"] -= 1
            naio += 1
        elif r < 0.40:
            t = rng.choice(targets)
            out = sim.recv_outcome(t)
            if out != "wait" or nbfix:
                lines.append("recvnb %s" % t)
                if out == "msg":
                    sim.tg[t]["lmq"] -= 1
        elif r < 0.66 and openp:
            p = rng.choice(openp)
            k = rng.random()
            nresp += 1
            body = "bb%04x" % nresp
            known = sorted(sim.rid)
            stale = [q for g in sim.tg.values() if g["rq"] for q in g["old"] if q in sim.rid]
            if k < 0.18 and stale:
                # the id of an earlier survey of a context that has a receive pending on a later one
                lines.append("inject p%d [R%d]%s" % (p, sim.rid[rng.choice(stale)], body))
            elif k < 0.55 and known:
                cur = [g["live"] for g in sim.tg.values() if g["live"] in sim.rid]
                seq = rng.choice(cur) if cur and rng.random() < 0.75 else rng.choice(known)
                lines.append("inject p%d [R%d]%s" % (p, sim.rid[seq], body))
                sim.response(seq)
                if rng.random() < 0.15:      # duplicate of the same response
                    lines.append("inject p%d [R%d]%s" % (p, sim.rid[seq], body))
                    sim.response(seq)
            elif k < 0.70:
                lines.append("inject p%d %08x%s" % (p, rng.randrange(0x90000000, 0xffffffff), body))
            elif k < 0.82:
                lines.append("inject p%d %08x%s" % (p, rng.choice([0, 0x00010005, 0x7fffffff, rng.randrange(0x00010000, 0x7fffffff)]), body))
            elif k < 0.92 and len(openp) > 1:
                lines.append("inject p%d %s" % (p, rng.choice(["-", "bb", "bbcc", "80bbcc"])))
                sim.pipes[p]["open"] = False
                sim.pipes[p]["txq"] = []
                sim.register()
        elif r < 0.78 and openp:
            p = rng.choice(openp)
            if rng.random() < 0.05 and len(openp) > 1 and sim.pipes[p]["txq"]:
                lines.append("sent p%d 31" % p)
                sim.pipes[p]["open"] = False
                sim.pipes[p]["txq"] = []
            else:
                lines.append("sent p%d" % p)
                if sim.pipes[p]["txq"]:
                    sim.pipes[p]["txq"].pop(0)
            sim.register()
        elif r < 0.90:
            live = [g for g in sim.tg.values() if g["cur"] is not None]
            cands = [500, 1000, 2000]
            for g in live:
                cands += [g["expire"] - 1000 - sim.now, g["expire"] + 1000 - sim.now]
                for a in g["rq"]:
                    if a in sim.dl:
                        cands += [sim.dl[a] - 1000 - sim.now, sim.dl[a] + 1000 - sim.now]
            cands = [c for c in cands if c > 0 and sim.can_advance(c)]
            if cands:
                ms = rng.choice(cands)
                lines.append("advance %d" % ms)
                sim.advance(ms)
                for a in [a for a, t in pend.items() if a not in sim.tg[t]["rq"]]:
                    del pend[a]
        elif r < 0.93 and pend:
            a = rng.choice(sorted(pend))
            lines.append("cancel a%d" % a)
            t = pend.pop(a)
            sim.tg[t]["rq"].remove(a)
            sim.tg[t]["live"] = None
        elif r < 0.95 and len(openp) > 1:
            p = rng.choice(openp)
            lines.append("drop p%d" % p)
            sim.pipes[p]["open"] = False
            sim.pipes[p]["txq"] = []
            sim.register()
        elif r < 0.97 and len(sim.pipes) < 4:
            lines.append("conn s0 %d" % (99 if rng.random() < 0.8 else 98))
            sim.pipes.append({"open": lines[-1].endswith("99"), "txq": []})
        elif r < 0.985:
            lines.append(rng.choice(["setopt s0 ttl-max int %d" % rng.choice([0, 1, 8, 15, 16]),
                                     "setopt s0 send-buffer int %d" % rng.choice([0, 4, 8192, 8193]),
                                     "setopt s0 recv-buffer int 2", "setopt s0 surveyor:survey-time ms -2"]))
        else:
            lines.append("poll")
    # the end: go past every deadline, then nothing may be delivered any more
    far = max([g["expire"] for g in sim.tg.values()] + [sim.now]) + 1000 - sim.now
    lines.append("advance %d" % far)
    sim.advance(far)
    for p, pp in enumerate(sim.pipes):
        if pp["open"]:
            for seq in sorted(sim.rid)[-2:]:
                nresp += 1
                lines.append("inject p%d [R%d]bb%04x" % (p, sim.rid[seq], nresp))
            break
    for t in targets:
        lines.append("recvnb %s" % t)
    if rng.random() < 0.5:
        lines.append("close s0")
    return lines


def bt_words(rng, k):
    return "".join("%08x" % rng.randrange(0x00010000, 0x7fffffff) for _ in range(k))


class RespSim:
    """enough of the cooked respondent for the generator to aim and to stay clear of the
    second-queued-send panic while the source has it"""

    def __init__(self, targets):
        self.pipes = []      # dict(open, armed, tx(0/1), sendq=[target], inbox=[kind])
        self.stalled = []    # pipes holding a survey for which nobody waits
        self.recvq = []      # targets blocked in recv
        self.has = {t: None for t in targets}
        self.saio = {t: None for t in targets}    # aio of a send queued behind a busy pipe
        self.raio = {t: None for t in targets}

    def conn(self, ok):
        self.pipes.append({"open": ok, "armed": ok, "tx": 0, "sendq": [], "inbox": []})

    def pump(self, p):
        pp = self.pipes[p]
        while pp["open"] and pp["armed"] and pp["inbox"]:
            kind = pp["inbox"].pop(0)
            if kind == "close":
                self.close(p)
            elif kind == "deliver":
                if self.recvq:
                    t = self.recvq.pop(0)
                    self.raio[t] = None
                    self.has[t] = p
                else:
                    self.stalled.append(p)
                    pp["armed"] = False

    def close(self, p):
        pp = self.pipes[p]
        pp["open"] = False
        pp["inbox"] = []
        if p in self.stalled:
            self.stalled.remove(p)
        for t in pp["sendq"]:
            self.saio[t] = None
        pp["sendq"] = []
        pp["tx"] = 0

    def recv(self, t, a, nb):
        if self.stalled:
            p = self.stalled.pop(0)
            self.has[t] = p
            self.pipes[p]["armed"] = True
            self.pump(p)
            pp = self.pipes[p]
            if pp["open"] and pp.get("dead") and pp["armed"] and not pp["inbox"]:
                self.close(p)
        elif not nb and self.raio[t] is None:
            self.raio[t] = a
            self.recvq.append(t)

    def send_would_panic(self, t):
        p = self.has[t]
        return p is not None and self.pipes[p]["open"] and self.pipes[p]["tx"] == 1 and self.saio[t] is not None

    def send(self, t, a, nb, nbfix):
        p = self.has[t]
        if p is None or (nb and not nbfix):
            return
        pp = self.pipes[p]
        if not pp["open"]:
            self.has[t] = None
        elif pp["tx"] == 0:
            pp["tx"] = 1
            self.has[t] = None
            if pp.get("dead"):
                self.close(p)
        elif not nb:
            self.has[t] = None
            self.saio[t] = a
            pp["sendq"].append(t)

    def sent(self, p, rv):
        pp = self.pipes[p]
        if not pp["open"] or not pp["tx"]:
            return
        if rv:
            self.close(p)
        elif pp["sendq"]:
            t = pp["sendq"].pop(0)
            self.saio[t] = None
        else:
            pp["tx"] = 0

    def drop(self, p):
        pp = self.pipes[p]
        if pp["open"] and (pp["tx"] or (pp["armed"] and not pp["inbox"])):
            self.close(p)
        # otherwise the loss is noticed with the next transport operation; keep it simple: treat as closed for aiming
        elif pp["open"]:
            pp["dead"] = True

    def cancel(self, a):
        for t in self.saio:
            if self.saio[t] == a:
                self.saio[t] = None
                for pp in self.pipes:
                    if t in pp["sendq"]:
                        pp["sendq"].remove(t)
        for t in self.raio:
            if self.raio[t] == a:
                self.raio[t] = None
                self.recvq.remove(t)


def gen_respondent_case(rng, raw=False, nbfix=False, sbusyfix=False):
    proto = "respondent0_raw" if raw else "respondent0"
    lines = ["open s0 %s" % proto]
    ttl = 8
    if rng.random() < 0.6:
        ttl = rng.choice([1, 2, 3, 8, 14, 15, rng.randrange(1, 16)])
        lines.append("setopt s0 ttl-max int %d" % ttl)
    targets = ["s0"]
    if not raw:
        for c in range(rng.choice([0, 0, 1, 2])):
            lines.append("ctx c%d s0" % c)
            targets.append("c%d" % c)
    sim = RespSim(targets)
    npipes = 0
    for _ in range(rng.choice([1, 2, 3])):
        lines.append("conn s0 98"); npipes += 1; sim.conn(True)
    naio, nmsg, nsurv = 0, 0, 0
    seen_hdrs = []
    dropped = set()
    for _ in range(rng.randrange(8, 50)):
        r = rng.random()
        if r < 0.30:
            p = rng.randrange(npipes)
            if p in dropped:
                continue
            nsurv += 1
            k = rng.choice([0, 0, 1, 2, ttl - 1, ttl, ttl + 1, rng.randrange(0, 21)])
            k = max(0, min(20, k))
            if rng.random() < 0.85:
                idw = "%08x" % rng.randrange(0x80000000, 0xffffffff)
                wire = bt_words(rng, k) + idw + "aa%04x" % nsurv
                if k + 2 <= 16:
                    seen_hdrs.append((p, wire[:8 * (k + 1)]))
                kind = "deliver" if k + 1 <= ttl else "drop"
            else:
                wire = bt_words(rng, k) + "0a%04x" % nsurv      # no terminating id: 3 trailing bytes
                kind = "close" if k < ttl else "drop"
            lines.append("inject p%d %s" % (p, wire))
            if sim.pipes[p]["open"]:
                sim.pipes[p]["inbox"].append(kind)
                sim.pump(p)
        elif r < 0.45 and naio < 60:
            t = rng.choice(targets)
            lines.append("recv %s a%d" % (t, naio)); sim.recv(t, naio, False); naio += 1
        elif r < 0.58:
            t = rng.choice(targets)
            lines.append("recvnb %s" % t); sim.recv(t, None, True)
        elif r < 0.78:
            t = rng.choice(targets)
            nmsg += 1
            if raw:
                if seen_hdrs and rng.random() < 0.8:
                    p, h = rng.choice(seen_hdrs)
                    hdr = "[P%d]%s" % (p, h)
                else:
                    hdr = rng.choice(["-", "0000", "7fffffff80000001", "[P0]"])
            else:
                hdr = "-"
            if rng.random() < 0.5 and naio < 60:
                if not raw and sim.send_would_panic(t) and not sbusyfix:
                    continue
                lines.append("send %s a%d %s dd%04x" % (t, naio, hdr, nmsg)); sim.send(t, naio, False, nbfix); naio += 1
            else:
                if not raw and nbfix and sim.send_would_panic(t) and not sbusyfix:
                    continue
                lines.append("sendnb %s %s dd%04x" % (t, hdr, nmsg)); sim.send(t, None, True, nbfix)
        elif r < 0.90:
            p = rng.randrange(npipes)
            bad = rng.random() < 0.05
            lines.append("sent p%d%s" % (p, " 31" if bad else "")); sim.sent(p, 31 if bad else 0)
        elif r < 0.93 and naio:
            a = rng.randrange(naio)
            lines.append("cancel a%d" % a); sim.cancel(a)
        elif r < 0.95:
            p = rng.randrange(npipes)
            lines.append("drop p%d" % p); sim.drop(p); dropped.add(p)
        elif r < 0.97 and npipes < 4:
            ok = rng.random() < 0.8
            lines.append("conn s0 %d" % (98 if ok else 99)); npipes += 1; sim.conn(ok)
        elif r < 0.985:
            if raw:
                lines.append("setopt s0 recv-buffer int %d" % rng.choice([0, 1, 2, 4]))
            elif not any(pp["inbox"] for pp in sim.pipes):
                ttl = rng.randrange(1, 16)
                lines.append("setopt s0 ttl-max int %d" % ttl)
        else:
            lines.append("poll")
    for _ in range(4):
        lines.append("recvnb s0"); sim.recv("s0", None, True)
    for p in range(npipes):
        lines.append("sent p%d" % p); sim.sent(p, 0)
    # (closing the socket while a send is queued behind a busy pipe is a race in the library between the
    #  reaper running pipe_close -- send completes with 0 -- and the context close -- NNG_ECLOSED: not scripted)
    if rng.random() < 0.5 and all(v is None for v in sim.saio.values()):
        lines.append("close s0")
    return lines


def gen_xsurveyor_case(rng):
    lines = ["open s0 surveyor0_raw"]
    npipes = 0
    for _ in range(rng.choice([1, 2, 3])):
        lines.append("conn s0 99"); npipes += 1
    naio, nmsg, nresp = 0, 0, 0
    for _ in range(rng.randrange(8, 50)):
        r = rng.random()
        if r < 0.22:
            nmsg += 1
            hdr = rng.choice(["%08x" % rng.randrange(0x80000000, 0xffffffff), "-", bt_words(rng, 1) + "80000005"])
            if rng.random() < 0.5 and naio < 60:
                lines.append("send s0 a%d %s aa%04x" % (naio, hdr, nmsg)); naio += 1
            else:
                lines.append("sendnb s0 %s aa%04x" % (hdr, nmsg))
        elif r < 0.50:
            nresp += 1
            k = rng.choice([0, 0, 1, 2, 14, 15, 16, rng.randrange(0, 21)])
            if rng.random() < 0.85:
                wire = bt_words(rng, k) + "%08x" % rng.randrange(0x80000000, 0xffffffff) + "bb%04x" % nresp
            else:
                wire = bt_words(rng, min(k, 5)) + "0b%04x" % nresp
            lines.append("inject p%d %s" % (rng.randrange(npipes), wire))
        elif r < 0.62 and naio < 60:
            lines.append("recv s0 a%d" % naio); naio += 1
        elif r < 0.74:
            lines.append("recvnb s0")
        elif r < 0.88:
            lines.append("sent p%d%s" % (rng.randrange(npipes), " 31" if rng.random() < 0.05 else ""))
        elif r < 0.91 and naio:
            lines.append("cancel a%d" % rng.randrange(naio))
        elif r < 0.93:
            lines.append("drop p%d" % rng.randrange(npipes))
        elif r < 0.95 and npipes < 4:
            lines.append("conn s0 %d" % (99 if rng.random() < 0.8 else 98)); npipes += 1
        elif r < 0.98:
            lines.append(rng.choice(["setopt s0 recv-buffer int %d" % rng.choice([0, 1, 2, 4]), "setopt s0 send-buffer int 2",
                                     "setopt s0 ttl-max int %d" % rng.choice([0, 3, 16]), "ctx c0 s0"]))
        else:
            lines.append("poll")
    for _ in range(4):
        lines.append("recvnb s0")
    if rng.random() < 0.5:
        lines.append("close s0")
    return lines


# ---------------------------------------------------------------- the spec oracle (implementation's observations only)
class Findings:
    def __init__(self):
        self.hits = {}     # key -> (case, k, text)

    def add(self, key, case, k, text):
        if key not in self.hits:
            self.hits[key] = (case, k, text)


FOUND = Findings()


def deliveries(o):
    """[(aio or None, 'hdr/body')] delivered to the application in this observation"""
    res = []
    if o["got"]:
        res.append((None, o["got"]))
    for a, rv, extra in o["done"]:
        if rv == 0 and extra and extra != "kept":
            res.append((a, extra))
    return res


def oracle_surveyor(case, obs):
    clock = 0
    T = {"s0": 1000}
    cur = {}            # target -> dict(body, sent_at, expire, rid(token or None))
    body_owner = {}     # survey body -> target
    body_rid = {}       # survey body -> token seen on the wire
    rid_body = {}
    injected = {}       # (token, body) -> count injected, with clock of first injection
    delivered = {}      # (token, body) -> count
    pend = {}           # aio -> (target, kind)
    aio_target = {}
    aio_tmo = {}        # aio -> its own timeout (aiotmo), ms
    exp_q = {}          # pipe -> expected transport sequence of survey bodies (head = in flight)
    started = {}        # pipe -> open as far as the oracle knows
    accepted_order = []
    for k, line in enumerate(case):
        t = line.split()
        o = obs[k] if k < len(obs) else None
        if o is None:
            return (k, "no observation")
        op = t[0]
        prev = obs[k - 1] if k > 0 else None
        if op == "setopt" and t[2] == "surveyor:survey-time" and o["rv"] == 0:
            T[t[1]] = int(t[4])
        if op == "ctx" and o["rv"] == 0:
            T[t[1]] = T["s0"]
        if op == "advance":
            clock += int(t[1])
        if op == "aiotmo":
            if int(t[2]) > 0:
                aio_tmo[int(t[1][1:])] = int(t[2])
            else:
                aio_tmo.pop(int(t[1][1:]), None)
        if op == "conn" and o["newpipe"] is not None:
            st = o["pipes"].get(o["newpipe"], {}).get("st")
            started[o["newpipe"]] = (st == "o")
            exp_q[o["newpipe"]] = []
            if t[2] == "99" and st != "o":
                return (k, "a respondent peer was refused")
            if t[2] != "99" and st == "o":
                return (k, "a pipe of the wrong peer protocol was accepted")
        # --- sends (surveys)
        sent_body, sent_target, sent_ok = None, None, False
        if op == "sendnb":
            sent_body, sent_target = t[3], t[1]
            if o["rv"] != 0:
                return (k, "non-blocking survey send failed with %d (a surveyor never blocks or refuses a send)" % o["rv"])
            sent_ok = True
        if op == "send":
            sent_body, sent_target = t[4], t[1]
            a = int(t[2][1:])
            rvs = [rv for (x, rv, e) in o["done"] if x == a]
            if rvs != [0]:
                return (k, "survey send did not complete at once with success (%r)" % rvs)
            sent_ok = True
        if sent_ok:
            # a new survey aborts what is pending on that target
            for a, (tg, _) in list(pend.items()):
                if tg == sent_target:
                    rvs = [rv for (x, rv, e) in o["done"] if x == a]
                    if rvs != [20]:
                        return (k, "receive a%d pending when a new survey was sent completed with %r instead of NNG_ECANCELED" % (a, rvs))
                    del pend[a]
            cur[sent_target] = {"body": sent_body, "expire": clock + T.get(sent_target, 1000), "dead": False}
            body_owner[sent_body] = sent_target
            accepted_order.append(sent_body)
            for p in exp_q:
                if started.get(p):
                    if len(exp_q[p]) < 1 + SEND_BUF:
                        exp_q[p].append(sent_body)
        # --- transport side bookkeeping
        if op == "sent" and o["rv"] == 0:
            p = int(t[1][1:])
            if exp_q.get(p):
                exp_q[p].pop(0)
        for p, ps in o["pipes"].items():
            if ps.get("st") != "o":
                started[p] = False
                exp_q[p] = []
                continue
            tx = ps.get("tx")
            if ps.get("nt", 0) > 1:
                return (k, "more than one transport send pending on pipe %d" % p)
            want = exp_q.get(p, [])
            if tx is None:
                if want:
                    return (k, "survey %s never handed to pipe %d although the pipe is idle" % (want[0], p))
            else:
                hdr, body = tx.split("/")
                if not want or want[0] != body:
                    return (k, "pipe %d carries survey %s, expected %s (each survey to every connected respondent once, in order)" % (p, body, want[:1]))
                if not hdr.startswith("[R"):
                    return (k, "survey on the wire without a fresh id header: %s" % tx)
                if body_rid.setdefault(body, hdr) != hdr:
                    return (k, "survey %s carries two different ids on two pipes" % body)
                if rid_body.setdefault(hdr, body) != body:
                    return (k, "two surveys share the id %s" % hdr)
        # --- responses injected
        if op == "inject" and o["rv"] == 0:
            p = int(t[1][1:])
            w = t[2]
            nbytes = 0 if w == "-" else (4 + (len(w) - w.index("]") - 1) // 2 if w.startswith("[") else len(w) // 2)
            st = o["pipes"].get(p, {}).get("st")
            if nbytes < 4:
                if st == "o":
                    return (k, "a response shorter than 4 bytes did not disconnect its sender")
            else:
                if st != "o" and prev and prev["pipes"].get(p, {}).get("st") == "o":
                    return (k, "a well-formed response (any id) closed the connection")
                if w.startswith("["):
                    tok = w[:w.index("]") + 1]
                    body = w[w.index("]") + 1:]
                    injected.setdefault((tok, body), []).append(clock)
                    # a response to a live survey on which a receive is pending is handed to that receive at once
                    for tg, c in cur.items():
                        if body_rid.get(c["body"]) == tok and clock < c["expire"] and not c["dead"]:
                            waiting = sorted(a for a, (g, _) in pend.items() if g == tg)
                            if waiting and st == "o" and not any(x in waiting and rv == 0 for (x, rv, e) in o["done"]):
                                return (k, "response %s%s to the live survey of %s (receive a%d pending, deadline not passed) was not delivered" % (tok, body, tg, waiting[0]))
        # --- receives
        if op in ("recv", "recvnb"):
            tg = t[1]
            c = cur.get(tg)
            dead = (c is None) or clock >= c["expire"]
            if op == "recvnb":
                if dead and o["rv"] != 11:
                    return (k, "receive with no live survey (none sent, or deadline passed) returned %d, not NNG_ESTATE" % o["rv"])
                if o["rv"] not in (0, 8, 11):
                    return (k, "unexpected result %d of a non-blocking receive" % o["rv"])
                if tg == "s0" and prev and not dead:
                    r = prev["poll"].get(0, ("x", "x"))[0]
                    if r == "1" and o["rv"] == 8:
                        return (k, "receive descriptor raised but non-blocking receive returned NNG_EAGAIN")
                    if r == "0" and o["rv"] == 0:
                        return (k, "receive descriptor not raised although a response was ready")
                aio_target[None] = tg
            else:
                a = int(t[2][1:])
                aio_target[a] = tg
                rvs = [rv for (x, rv, e) in o["done"] if x == a]
                if dead:
                    if rvs != [11]:
                        return (k, "receive with no live survey (none sent, or deadline passed) completed with %r, not NNG_ESTATE" % rvs)
                elif not rvs:
                    pend[a] = (tg, clock + aio_tmo[a] if a in aio_tmo else None)    # when its own timeout ends
        if op == "cancel":
            a = int(t[1][1:])
            if a in pend:
                tg = pend.pop(a)[0]
                rvs = [rv for (x, rv, e) in o["done"] if x == a]
                if rvs != [20]:
                    return (k, "cancelled receive completed with %r" % rvs)
                if tg in cur:
                    cur[tg]["dead"] = True      # as coded: the cancel function retires the survey
        if op == "ctxclose" or op == "close":
            for a, (tg, _) in list(pend.items()):
                if op == "close" or tg == t[1]:
                    del pend[a]
        # --- completions of pending receives
        for a, rv, extra in o["done"]:
            if a in pend:
                tg = pend[a][0]
                c = cur[tg]
                if rv == 5:
                    own = pend[a][1]
                    if clock < c["expire"] and (own is None or clock < own):
                        return (k, "pending receive timed out before the survey deadline and before its own timeout")
                    if clock < c["expire"]:
                        c["dead"] = True        # as coded: a receive timing out retires the survey
                    del pend[a]
                elif rv != 0:
                    if op not in ("close", "ctxclose"):
                        return (k, "pending receive a%d failed with %d" % (a, rv))
                    del pend[a]
        if op == "advance":
            for a, (tg, own) in list(pend.items()):
                if clock >= cur[tg]["expire"]:
                    return (k, "receive a%d still pending after the survey deadline, whatever its own timeout (must fail with NNG_ETIMEDOUT)" % a)
                if own is not None and clock >= own:
                    return (k, "receive a%d still pending after its own timeout" % a)
        # --- every delivery: right context, current id, before the deadline, injected, not twice
        for a, got in deliveries(o):
            if op == "recvnb" and a is None:
                tg = t[1]
            else:
                tg = aio_target.get(a)
            if a in pend:
                del pend[a]
            if tg is None:
                return (k, "message delivered to an aio the script never used for a receive")
            hdr, body = got.split("/")
            c = cur.get(tg)
            if c is None:
                return (k, "response %s delivered to %s, which has no survey" % (got, tg))
            want = body_rid.get(c["body"])
            if want is None or hdr != want:
                whose = body_owner.get(rid_body.get(hdr))
                return (k, "response %s delivered to %s whose current survey is %s (id %s); that id belongs to %s" %
                        (got, tg, c["body"], want, ("an earlier survey of " + whose) if whose == tg else (whose or "nobody")))
            if clock >= c["expire"]:
                return (k, "response %s delivered after the survey deadline" % got)
            if (hdr, body) not in injected:
                return (k, "response %s delivered but no respondent sent it" % got)
            delivered[(hdr, body)] = delivered.get((hdr, body), 0) + 1
            if delivered[(hdr, body)] > len(injected[(hdr, body)]):
                return (k, "response %s delivered more often than it was sent" % got)
        # --- the send descriptor of a surveyor is always raised
        if 0 in o["poll"] and o["poll"][0][1] != "1":
            return (k, "send descriptor of the surveyor not raised")
    return None


def parse_backtrace(w, ttl, raw_pipe=None):
    """the property's reading of an injected survey: ('deliver', hdr_hex, body_hex) | ('drop',) | ('close',)
    (words are moved while they lack the high bit; more than ttl words => drop; fewer than 4 bytes left => close)"""
    b = bytes.fromhex(w)
    hdr = b""
    for hop in range(1, 64):
        if hop > ttl:
            return ("drop",)
        if len(b) < 4:
            return ("close",)
        word, b = b[:4], b[4:]
        hdr += word
        if word[0] & 0x80:
            return ("deliver", hdr.hex(), b.hex())
    return ("drop",)


class Inbox:
    """wire messages handed to the transport side that the protocol has not taken yet (a pipe whose
    survey nobody has received is not re-armed); they are judged when the protocol takes them"""

    def __init__(self):
        self.q = {}
        self.dropped = set()

    def step(self, k, t, o, prev, classify, what):
        """-> (error or None, [(pipe, wire, kind) taken in this observation])"""
        if t[0] == "drop":
            self.dropped.add(int(t[1][1:]))
        if t[0] == "inject" and o["rv"] == 0:
            self.q.setdefault(int(t[1][1:]), []).append(t[2])
        taken = []
        for p, q in self.q.items():
            if not q:
                continue
            ps = o["pipes"].get(p, {})
            isopen = ps.get("st") == "o"
            left = ps.get("inbox", 0) if isopen else 0
            n = len(q) - left
            closed_by = None
            for w in q[:max(n, 0)]:
                kind = classify(w)
                taken.append((p, w, kind))
                if kind == "close":
                    closed_by = w
                    break
            if closed_by is not None:
                if isopen:
                    return ((k, "%s (%s) did not disconnect its sender" % (what, closed_by)), taken)
                self.q[p] = []
                continue
            was = prev["pipes"].get(p, {}).get("st") if prev else None
            if t[0] == "inject" and int(t[1][1:]) == p and was == "o" and not isopen and p not in self.dropped:
                return ((k, "a message that is not malformed closed the connection"), taken)
            self.q[p] = q[n:] if isopen else []
        return (None, taken)


def oracle_respondent(case, obs, raw):
    ttl = 8
    survey_of = {}     # body tag -> (pipe, hdr hex)
    expect_gone = set()
    has = {}           # target -> (pipe, hdr hex) of the survey most recently received, not yet answered
    aio_target, pend_recv, pend_send = {}, {}, {}
    wire_seen = {}     # response body -> pipe
    expected_wire = {}  # response body -> (pipe, hdr) or None if it may be discarded
    inbox = Inbox()
    for k, line in enumerate(case):
        t = line.split()
        o = obs[k] if k < len(obs) else None
        if o is None:
            return (k, "no observation")
        op = t[0]
        prev = obs[k - 1] if k > 0 else None
        if op == "setopt" and t[2] == "ttl-max":
            v = int(t[4])
            if 1 <= v <= 15:
                if o["rv"] != 0:
                    return (k, "ttl %d refused" % v)
                ttl = v
            elif o["rv"] == 0:
                return (k, "ttl %d accepted (range is 1..15)" % v)
        if op == "conn" and o["newpipe"] is not None:
            st = o["pipes"].get(o["newpipe"], {}).get("st")
            if (t[2] == "98") != (st == "o"):
                return (k, "peer protocol %s: pipe state %s" % (t[2], st))
        err, taken = inbox.step(k, t, o, prev, lambda w: parse_backtrace(w, ttl)[0],
                                "a survey whose backtrace runs into a body shorter than 4 bytes")
        if err:
            return err
        for p, w, kind in taken:
            if kind == "deliver":
                res = parse_backtrace(w, ttl)
                survey_of[res[2]] = (p, res[1])
        if op == "recv":
            aio_target[int(t[2][1:])] = t[1]
        # --- deliveries
        for a, got in deliveries(o):
            hdr, body = got.split("/")
            tg = t[1] if (a is None) else aio_target.get(a)
            if a in pend_recv:
                del pend_recv[a]
            if body not in survey_of:
                return (k, "survey %s delivered, but no surveyor sent it / it should have been dropped (ttl %d)" % (got, ttl))
            p, h = survey_of[body]
            if raw:
                if hdr != "[P%d]%s" % (p, h):
                    return (k, "raw respondent delivered header %s, expected pipe id + backtrace [P%d]%s" % (hdr, p, h))
            else:
                if hdr != "-":
                    return (k, "cooked respondent delivered a header (%s)" % hdr)
                has[tg] = (p, h)
        # --- sends
        if op in ("send", "sendnb"):
            tg = t[1]
            nb = op == "sendnb"
            hdr, body = (t[2], t[3]) if nb else (t[3], t[4])
            a = None if nb else int(t[2][1:])
            if nb:
                rv = o["rv"]
            else:
                rvs = [rv for (x, rv, e) in o["done"] if x == a]
                rv = rvs[0] if rvs else None
                aio_target[a] = tg
            if raw:
                w = prev["poll"].get(0, ("x", "x"))[1] if prev else "x"
                if nb and rv == 8 and w == "1":
                    FOUND.add("raw-nb-eagain", case, k, "send descriptor raised but NONBLOCK send on the raw respondent returned NNG_EAGAIN")
                    return None
                if rv not in (0, None) and not (nb and rv == 8):
                    return (k, "raw send failed with %s" % rv)
                if rv == 0:
                    dest = None
                    if hdr.startswith("[P"):
                        dest = int(hdr[2:hdr.index("]")])
                        rest = hdr[hdr.index("]") + 1:]
                        expected_wire[body] = (dest, rest if rest else "-")
                    else:
                        expected_wire[body] = None
            else:
                pending = has.get(tg)
                w = prev["poll"].get(0, ("x", "x"))[1] if prev else "x"
                idle = pending is not None and prev is not None and prev["pipes"].get(pending[0], {}).get("st") == "o" and prev["pipes"][pending[0]].get("nt") == 0
                gone = pending is not None and prev is not None and prev["pipes"].get(pending[0], {}).get("st") != "o"
                if pending is None:
                    if nb and rv == 8:
                        FOUND.add("respondent-nb-send-eagain", case, k, "NONBLOCK send with no pending survey returned NNG_EAGAIN (NNG_ESTATE expected; nni_aio_start comes first)")
                    elif rv != 11:
                        return (k, "send with no pending survey gave %s, not NNG_ESTATE" % rv)
                    if rv == 11 and not nb and [e for (x, r, e) in o["done"] if x == a] != ["kept"]:
                        return (k, "failed send did not leave the message with the caller")
                else:
                    queued_before = any(aio_target.get(x) == tg for x in pend_send if x != a)
                    if rv == 11 and queued_before:
                        pass        # refused while the context's previous response still waits for its pipe; the survey stays pending
                    elif rv == 11:
                        return (k, "send failed with NNG_ESTATE although a survey is pending on %s" % tg)
                    elif nb and rv == 8:
                        if idle or gone:
                            FOUND.add("respondent-nb-send-eagain", case, k, "NONBLOCK send returned NNG_EAGAIN although a survey is pending and its pipe is idle")
                        elif tg == "s0" and w == "1":
                            FOUND.add("respondent-writable-while-busy", case, k, "send descriptor raised but NONBLOCK send returned NNG_EAGAIN (pipe busy)")
                        # the survey stays pending (EAGAIN leaves the context intact) -- as far as the property goes
                        # the pinned code does not consume it either
                    elif rv == 0:
                        if tg == "s0" and w == "0" and (idle or gone):
                            FOUND.add("respondent-nb-send-eagain", case, k, "send descriptor not raised although the send succeeded at once (cleared by an earlier NONBLOCK attempt)")
                        expected_wire[body] = (pending[0], pending[1]) if not gone else None
                        del has[tg]
                    elif rv is None:
                        # queued behind a busy pipe
                        if idle or gone:
                            return (k, "blocking send was queued although the survey's pipe is idle")
                        if tg == "s0" and w == "1":
                            FOUND.add("respondent-writable-while-busy", case, k, "send descriptor raised but the send had to wait for the pipe")
                        pend_send[a] = (body, pending)
                        del has[tg]
                    else:
                        return (k, "send failed with %s" % rv)
        for a, rv, extra in o["done"]:
            if a in pend_send:
                body, pending = pend_send.pop(a)
                if rv == 0:
                    expected_wire[body] = (pending[0], pending[1]) if o["pipes"].get(pending[0], {}).get("st") == "o" else None
        # --- receives
        if op in ("recv", "recvnb"):
            tg = t[1]
            r = prev["poll"].get(0, ("x", "x"))[0] if prev else "x"
            if op == "recvnb":
                if o["rv"] not in (0, 8):
                    return (k, "non-blocking receive returned %d" % o["rv"])
                if r == "1" and o["rv"] == 8:
                    FOUND.add("raw-nb-eagain" if raw else "respondent-readable-after-close", case, k, "receive descriptor raised but NONBLOCK receive returned NNG_EAGAIN")
                if r == "0" and o["rv"] == 0:
                    if raw:
                        FOUND.add("raw-nb-eagain", case, k, "receive descriptor not raised although a survey was ready")
                    else:
                        return (k, "receive descriptor not raised although a survey was ready")
            else:
                a = int(t[2][1:])
                aio_target[a] = tg
                rvs = [rv for (x, rv, e) in o["done"] if x == a]
                if not rvs:
                    if not raw and any(tt == tg for tt in pend_recv.values()):
                        return (k, "second concurrent receive on %s was queued" % tg)
                    pend_recv[a] = tg
                elif rvs == [11]:
                    if raw or not any(tt == tg for tt in pend_recv.values()):
                        return (k, "receive failed with NNG_ESTATE")
        if op == "cancel":
            a = int(t[1][1:])
            pend_recv.pop(a, None)
            if a in pend_send:
                pend_send.pop(a)
        if op in ("close", "ctxclose"):
            pend_recv = {a: tg for a, tg in pend_recv.items() if op != "close" and tg != t[1]}
            pend_send = {a: v for a, v in pend_send.items() if op != "close" and aio_target.get(a) != t[1]}
        # --- what reaches the transports
        for p, ps in o["pipes"].items():
            tx = ps.get("tx")
            if ps.get("st") != "o" or tx is None:
                continue
            if ps.get("nt", 0) > 1:
                return (k, "more than one transport send pending on pipe %d" % p)
            hdr, body = tx.split("/")
            if wire_seen.get(body, p) != p:
                return (k, "response %s sent to two pipes (%d and %d)" % (body, wire_seen[body], p))
            if body not in wire_seen:
                wire_seen[body] = p
                exp = expected_wire.get(body, "none")
                if exp == "none":
                    pq = [v for v in pend_send.values() if v[0] == body]
                    exp = (pq[0][1][0], pq[0][1][1]) if pq else "none"
                if exp == "none" or exp is None:
                    return (k, "response %s on the wire but the application never had it accepted for a pending survey" % tx)
                if exp[0] != p:
                    return (k, "response %s went to pipe %d, the survey came from pipe %d" % (body, p, exp[0]))
                if exp[1] != hdr:
                    return (k, "response %s carries backtrace %s, the survey's was %s" % (body, hdr, exp[1]))
    return None


def oracle_xsurveyor(case, obs):
    inbox = Inbox()
    for k, line in enumerate(case):
        t = line.split()
        o = obs[k] if k < len(obs) else None
        if o is None:
            return (k, "no observation")
        op = t[0]
        prev = obs[k - 1] if k > 0 else None
        err, taken = inbox.step(k, t, o, prev, lambda w: "deliver" if parse_backtrace(w, 16)[0] == "deliver" else "close",
                                "a malformed response (short body / header overflow)")   # no ttl on this side: at most a full header (16 words)
        if err:
            return err
        if op == "recvnb":
            r = prev["poll"].get(0, ("x", "x"))[0] if prev else "x"
            if (r == "1" and o["rv"] == 8) or (r == "0" and o["rv"] == 0):
                FOUND.add("raw-nb-eagain", case, k, "receive descriptor %s but NONBLOCK receive on the raw surveyor returned %d" % (r, o["rv"]))
        if op == "sendnb":
            w = prev["poll"].get(0, ("x", "x"))[1] if prev else "x"
            if w == "1" and o["rv"] == 8:
                FOUND.add("raw-nb-eagain", case, k, "send descriptor raised but NONBLOCK send on the raw surveyor returned NNG_EAGAIN")
        for a, got in deliveries(o):
            hdr, body = got.split("/")
            inj = [l.split()[2] for l in case[:k + 1] if l.startswith("inject ") and l.split()[2].endswith(body)]
            if not inj:
                return (k, "response %s delivered but never sent" % got)
            res = parse_backtrace(inj[0], 16)
            if res[0] != "deliver" or res[1] != hdr:
                return (k, "raw surveyor delivered header %s for wire message %s" % (hdr, inj[0]))
    return None


def oracle(case, obs, raw):
    proto = case[0].split()[2]
    if proto == "surveyor0":
        return oracle_surveyor(case, obs)
    if proto == "respondent0":
        return oracle_respondent(case, obs, False)
    if proto == "respondent0_raw":
        return oracle_respondent(case, obs, True)
    return oracle_xsurveyor(case, obs)


# ---------------------------------------------------------------- the NONBLOCK receive of the surveyor (needs real time)
def nb_recv_probe(impl):
    """nng_recvmsg(NNG_FLAG_NONBLOCK) on a surveyor with a live survey and nothing to receive must return at once.
    Returns (seconds the call took, rv, what a following blocking receive did)."""
    script = ["mark 0", "open s0 surveyor0", "conn s0 99", "setopt s0 surveyor:survey-time ms 1200", "sendnb s0 - aa01"]
    p = subprocess.Popen([impl], stdin=subprocess.PIPE, stdout=subprocess.PIPE, text=True, env=dict(os.environ, **ASAN_ENV))
    try:
        for l in script:
            p.stdin.write(l + "\n"); p.stdin.flush(); p.stdout.readline()
        t0 = time.time()
        p.stdin.write("recvnb s0\n"); p.stdin.flush()
        o1 = parse_line(p.stdout.readline().strip())
        dt = time.time() - t0
        p.stdin.write("recv s0 a1\n"); p.stdin.flush()
        o2 = parse_line(p.stdout.readline().strip())
        p.stdin.write("mark 1\n"); p.stdin.close()
        p.wait(timeout=30)
        return dt, (o1 or {}).get("rv"), (o2 or {}).get("done")
    finally:
        if p.poll() is None:
            p.kill()


PANIC_SCRIPT = ["open s0 respondent0", "conn s0 98", "inject p0 80000001aa01", "recvnb s0", "send s0 a0 - dd01",
                "inject p0 80000002aa02", "recvnb s0", "send s0 a1 - dd02", "inject p0 80000003aa03", "recvnb s0",
                "send s0 a2 - dd03", "sent p0", "sent p0", "sent p0"]


def second_send_probe(impl):
    """a context answers a second survey while its first response still waits for the busy pipe (run apart:
    the pinned source panics).  Returns None if fine, else a description."""
    o, crash = run_cases(impl, [PANIC_SCRIPT], timeout=60)
    if crash is not None:
        return "library aborted (rc=%s): %s" % (crash[1], san_summary(crash[2]) or "NNI_ASSERT in nni_list_append")
    obs = [parse_line(x) for x in o[0]]
    if len(obs) < len(PANIC_SCRIPT) or any(x is None for x in obs):
        return "no observation"
    done = {}
    for x in obs:
        for a, rv, e in x["done"]:
            done[a] = rv
    if done.get(0) != 0 or done.get(1) != 0 or done.get(2) not in (0, 11):
        return "sends completed with %r (every accepted send must complete, a refused one with NNG_ESTATE)" % done
    return None


def run(tier, seed, replay=None):
    rep = Report("C07", tier, seed)
    assume = os.environ.get("C07_ASSUME_KNOWN", "")
    for key in KEYS:
        if assume == "all" or key in assume.split(","):
            rep.known.setdefault(key, KEYS[key] + " (assumed known: C07_ASSUME_KNOWN)")
    proof_ok, cb, bdir, why = std_prelude(rep, "C07", "Properties_C07", "c07", drivers=("c07",))
    if bdir is None:
        return rep.finish()
    rc, out, err = run_prog(model_bin("modeld_c07"), "", args=["--flags"])
    flags = out[0].strip() if out else "000000"
    rep.cov["repairs_in_source"] = dict(zip(["surv_nbrecv", "resp_nb", "resp_wbusy", "resp_rclose", "msgq_nb", "msgq_resize", "resp_sbusy", "resp_wother", "resp_wstale", "msgq_get_runs_putq"], flags))
    flags = (flags + "0000000000")[:10]
    nbfix, rnbfix, sbusyfix = flags[0] == "1", flags[1] == "1", flags[6] == "1"
    rng = random.Random(seed)
    n = 150 if tier == "quick" else 5000
    if replay:
        cases = [[l.strip() for l in open(replay) if l.strip() and not l.startswith("#")]]
    else:
        cases = load_corpus("C07")
        for i in range(n):
            m = i % 10
            if m < 5:
                cases.append(gen_surveyor_case(rng, nbfix))
            elif m < 8:
                cases.append(gen_respondent_case(rng, raw=False, nbfix=rnbfix, sbusyfix=sbusyfix))
            elif m < 9:
                cases.append(gen_respondent_case(rng, raw=True))
            else:
                cases.append(gen_xsurveyor_case(rng))
    proto_run(rep, "C07", tier, bdir, cases, oracle, model_driver="c07", label="SURVEY")
    # the timing-dependent clause
    impl, err = wb_build(bdir, "wb_proto.c")
    if impl and not replay:
        dt, rv, after = nb_recv_probe(impl)
        rep.cov["nb_recv_probe"] = {"seconds": round(dt, 3), "rv": rv, "following_recv": after}
        if dt > 0.6 or rv != 8 or after:
            FOUND.add("surveyor-nb-recv-waits", ["open s0 surveyor0", "conn s0 99", "setopt s0 surveyor:survey-time ms 1200", "sendnb s0 - aa01", "recvnb s0", "recv s0 a1"], 4,
                      "nng_recvmsg(NONBLOCK) on a surveyor with a live survey took %.2f s and returned %s; the blocking receive after it completed with %s (survey retired)" % (dt, rv, after))
        bad = second_send_probe(impl)
        rep.cov["second_send_probe"] = bad or "ok"
        if bad:
            FOUND.add("respondent-second-send-panics", PANIC_SCRIPT, 10, bad)
    for key, (case, k, text) in sorted(FOUND.hits.items()):
        p = rep.replay_file("finding_%s.case" % key, "# %s\n# at op %d: %s\n" % (text, k, case[min(k, len(case) - 1)]) + "\n".join(case) + "\n")
        rep.violation(p, "SURVEY: %s (op %d: %s) -- %s" % (text, k, case[min(k, len(case) - 1)][:80], KEYS[key][:160]), key=key)
    rep.cov["findings"] = sorted(FOUND.hits)
    if not proof_ok and not rep.violations:
        proof_broken_report(rep, cb, "C07 theorems do not check (%s)" % why)
    rep.cov["rule"] = ("random histories on one SURVEYOR (cooked: 0-3 contexts, 1-3 raw respondent peers; raw) or RESPONDENT (cooked with contexts; raw) socket over the deterministic "
                       "transport with the virtual clock: surveys, blocking/non-blocking receives, responses with current / stale / foreign / unknown / high-bit-less ids, duplicates, "
                       "responses shorter than 4 bytes, responses 1 s before and 1 s after each deadline, new surveys while receives pend, cancels, peer loss; surveys into the respondent with "
                       "backtraces of 0-20 words with/without terminating id under TTL 1..15, responses routed back; same script on the real library and the extracted models; "
                       "the oracle evaluates the property's clauses on the library's own observations; non-trivial = some message moves; distinct = distinct scripts")
    return rep.finish()
