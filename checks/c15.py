# C15 -- non-blocking calls never block; poll descriptors mirror readiness (DESIGN 5/C15)
#
# Every protocol variant (cooked and raw) is driven through harness/wb_proto.c (the real library over the
# deterministic transport) and through ocaml/drv_c15.ml (the extracted models, coq/Proto/PollModel.v c15_*)
# with the same scripts.  A script is a random history (connect, disconnect, transport completions, arriving
# messages, blocking / non-blocking sends and receives on the socket and on contexts, cancels, buffer resizes,
# subscriptions, clock advances) into which PROBES are woven: socket-level `recvnb s0` / `sendnb s0` lines.
# The library reports both descriptors (poll(2)) in the observation of every line, i.e. at every quiescent
# point; a probe is judged against the descriptors reported by the line just before it -- on the
# implementation's own observations, never on the model.  Because a probe changes the state it is part of
# the script, so that the model sees it too.
import random, re
from concurrent.futures import ThreadPoolExecutor
from protolib import *

KEY_BUS = "bus-nonblock-send-eagain"
KEY_RESP = "respondent-nb-send-eagain"
PLB_TEXT = ("pollable.c nni_pollable_getfd: a complete nni_pollable_clear of another thread between its load of p_raised and its write leaves the "
            "descriptor readable with the flag down, and the next clear does not drain it (wb_c15 `window clear`)")
KNOWN_TEXT = {
    KEY_BUS: "bus.c bus0_sock_send: NONBLOCK send returns NNG_EAGAIN although the send descriptor is raised and a blocking send succeeds at once",
    KEY_RESP: "respond.c resp0_ctx_send calls nni_aio_start first: NONBLOCK send returns NNG_EAGAIN with the pipe idle (descriptor raised), and the descriptor it cleared stays down although a blocking send succeeds at once",
}

# name -> peer protocol number, wrong peer number, directions, contexts
P = {
    "req0":            dict(peer=49, send=True, recv=True, ctx=True, raw=False),
    "rep0":            dict(peer=48, send=True, recv=True, ctx=True, raw=False),
    "req0_raw":        dict(peer=49, send=True, recv=True, ctx=False, raw=True),
    "rep0_raw":        dict(peer=48, send=True, recv=True, ctx=False, raw=True),
    "pub0":            dict(peer=33, send=True, recv=False, ctx=False, raw=False),
    "pub0_raw":        dict(peer=33, send=True, recv=False, ctx=False, raw=True),
    "sub0":            dict(peer=32, send=False, recv=True, ctx=True, raw=False),
    "sub0_raw":        dict(peer=32, send=False, recv=True, ctx=False, raw=True),
    "push0":           dict(peer=81, send=True, recv=False, ctx=False, raw=False),
    "push0_raw":       dict(peer=81, send=True, recv=False, ctx=False, raw=True),
    "pull0":           dict(peer=80, send=False, recv=True, ctx=False, raw=False),
    "pull0_raw":       dict(peer=80, send=False, recv=True, ctx=False, raw=True),
    "surveyor0":       dict(peer=99, send=True, recv=True, ctx=True, raw=False),
    "respondent0":     dict(peer=98, send=True, recv=True, ctx=True, raw=False),
    "surveyor0_raw":   dict(peer=99, send=True, recv=True, ctx=False, raw=True),
    "respondent0_raw": dict(peer=98, send=True, recv=True, ctx=False, raw=True),
    "pair0":           dict(peer=16, send=True, recv=True, ctx=False, raw=False),
    "pair0_raw":       dict(peer=16, send=True, recv=True, ctx=False, raw=True),
    "pair1":           dict(peer=17, send=True, recv=True, ctx=False, raw=False),
    "pair1_raw":       dict(peer=17, send=True, recv=True, ctx=False, raw=True),
    "bus0":            dict(peer=112, send=True, recv=True, ctx=False, raw=False),
    "bus0_raw":        dict(peer=112, send=True, recv=True, ctx=False, raw=True),
}
# the same C code under two names: fewer cases
ALIAS = {"pub0_raw", "push0_raw", "pull0_raw", "pair0_raw"}
# buffer options the protocol models know (the socket core accepts both on every socket; the PUSH / PULL models of
# C06 only carry the one that has an effect)
def buf_opts(proto):
    if proto.startswith("push0"):
        return ["send-buffer"]
    if proto.startswith("pull0"):
        return []
    return ["send-buffer", "recv-buffer"]

BUFS = [0, 1, 1, 2, 2, 3, 4, 8]


def words(rng, n):
    return "".join("%02x%06x" % (rng.randrange(0x80), rng.randrange(1 << 24)) for _ in range(n))


class Session:
    """the extracted model as an interactive oracle for the GENERATOR only (which ids are on the wire, which
    descriptor is up, which pipe is busy): it lets the scripts aim at replies that match, queues that are full and
    descriptors that are raised.  Verdicts never come from here."""
    def __init__(self, binpath):
        import subprocess
        self.p = subprocess.Popen([binpath], stdin=subprocess.PIPE, stdout=subprocess.PIPE, text=True, bufsize=1)
        self.k = 0

    def reset(self):
        self.k += 1
        self.p.stdin.write("mark %d\n" % self.k); self.p.stdin.flush()
        self.p.stdout.readline()

    def do(self, line):
        self.p.stdin.write(line + "\n"); self.p.stdin.flush()
        return parse_line(self.p.stdout.readline().rstrip("\n"))

    def close(self):
        try:
            self.p.stdin.close(); self.p.wait(timeout=5)
        except Exception:
            self.p.kill()


class Gen:
    def __init__(self, rng, proto, sess):
        self.rng, self.proto, self.d, self.sess = rng, proto, P[proto], sess
        self.L = []
        self.npipes = self.naio = self.nmsg = 0
        self.ctxs = []
        self.nctx = 0
        self.now = 0
        self.deadlines = []
        self.ticks = [1000]    # instants at which REQ's retry timer (period 1 s, re-armed at every firing) can be due
        self.ttl = 8
        self.o = None          # the model's last observation
        self.rids = []         # request / survey id tokens seen on the wire (model), latest last
        sess.reset()

    def emit(self, line):
        self.L.append(line)
        self.o = self.sess.do(line)
        if self.o:
            for i, pp in self.o["pipes"].items():
                m = re.match(r"\[R(\d+)\]", pp.get("tx") or "")
                if m and int(m.group(1)) not in self.rids:
                    self.rids.append(int(m.group(1)))
        return self.o

    def fds(self):
        return self.o["poll"].get(0, ("x", "x")) if self.o else ("x", "x")

    def open_pipes(self):
        return [i for i, pp in (self.o["pipes"].items() if self.o else []) if pp["st"] == "o"]

    def busy_pipes(self):
        return [i for i, pp in (self.o["pipes"].items() if self.o else []) if pp["st"] == "o" and pp.get("nt", 0) > 0]

    def body(self, tag):
        self.nmsg += 1
        return "%s%04x" % (tag, self.nmsg)

    def aio(self):
        self.naio += 1
        return "a%d" % (self.naio - 1)

    def tgt(self):
        return self.rng.choice(["s0", "s0"] + self.ctxs) if self.ctxs else "s0"

    # ---- what the application hands to a send (header is only meaningful on raw sockets)
    def send_args(self, valid=False):
        rng, pr = self.rng, self.proto
        hdr = "-"
        ops = self.open_pipes()
        if pr == "req0_raw":
            hdr = (words(rng, rng.choice([0, 0, 1])) + "%08x" % (0x80000000 | rng.randrange(1 << 31))) if (valid or rng.random() < 0.9) else "-"
        elif pr in ("rep0_raw", "respondent0_raw"):
            k = rng.random()
            if (valid or k < 0.8) and ops:
                hdr = "[P%d]" % rng.choice(ops) + words(rng, rng.choice([0, 0, 1])) + "%08x" % (0x80000000 | rng.randrange(1 << 31))
            elif k < 0.9:
                hdr = "%08x" % rng.choice([0, 0x7fffff01, 0xdeadbeef])
            else:
                hdr = rng.choice(["-", "aa", "aabbcc"])
        elif pr == "surveyor0_raw":
            hdr = rng.choice(["%08x" % rng.randrange(0x80000000, 0xffffffff), "-"])
        elif pr == "pair1_raw":
            k = rng.random()
            hdr = "%08x" % rng.choice([0, 1, 2, self.ttl]) if (valid or k < 0.85) else rng.choice(["-", "000000ff", "00000100", "0000000100000002", "00"])
        elif pr == "bus0_raw":
            k = rng.random()
            hdr = "-" if k < 0.5 else ("[P%d]" % rng.choice(ops) if (k < 0.9 and ops) else rng.choice(["00", "7ffffff17ffffff2", "7fffffff"]))
        elif rng.random() < 0.05 and not valid:
            hdr = rng.choice(["00000005", "01"])          # a stray header on a cooked socket
        return hdr, self.body("aa")

    # ---- what a peer sends
    def wire(self):
        rng, pr = self.rng, self.proto
        b = self.body("bb")
        if pr in ("req0", "surveyor0"):
            k = rng.random()
            if k < 0.8 and self.rids:
                return "[R%d]%s" % (self.rids[-1] if rng.random() < 0.8 else rng.choice(self.rids), b)
            if k < 0.88:
                return "%08x%s" % (rng.choice([0x80000000, 0xffffffff, 0x8abcdef0, 1, 0x7fffffff]), b)
            if k < 0.94:
                return rng.choice(["-", "aa", "aabbcc"])
            return words(rng, 1) + "[R%d]%s" % (self.rids[-1] if self.rids else 0, b)
        if pr in ("rep0", "rep0_raw", "respondent0", "respondent0_raw", "req0_raw", "surveyor0_raw"):
            k = rng.random()
            nw = rng.choice([0, 0, 0, 1, 2, self.ttl - 1, self.ttl, self.ttl + 1]) if k < 0.3 else (rng.choice([14, 15, 16, 20]) if k < 0.35 else rng.choice([0, 0, 1]))
            nw = max(0, nw)
            if rng.random() < 0.93:
                return words(rng, nw) + "%08x" % (0x80000000 | rng.randrange(1 << 31)) + b
            return (words(rng, min(nw, 3)) + rng.choice(["", "80ff", "0b"])) or "-"
        if pr in ("pair1", "pair1_raw"):
            k = rng.random()
            if k < 0.88:
                return "%08x%s" % (rng.choice([0, 1, 1, 2, self.ttl, max(self.ttl - 1, 0)]), b)
            if k < 0.95:
                return "%08x%s" % (rng.choice([self.ttl + 1, 0xff, 0x100, 1 << 31]), b)
            return rng.choice(["-", "00", "000000"])
        if pr in ("sub0", "sub0_raw"):
            return rng.choice(["", "61", "6162", "62", "00"]) + b
        return b

    def advance(self):
        """a clock step that stays at least 2 s away from every deadline the script knows of"""
        rng = self.rng
        for _ in range(8):
            t = rng.choice([10, 100, 900, 3000, 7000, 7000, 20000])
            new = self.now + t
            if all(abs(new - d) >= 2000 for d in self.deadlines) and all(abs(new - d) >= 300 for d in self.ticks):
                self.now = new
                self.ticks.append(new + 1000)
                self.emit("advance %d" % t)
                return
        self.emit("poll")


def gen_case(rng, proto, sess, density=None, nops=None):
    g = Gen(rng, proto, sess)
    d = g.d
    E = g.emit
    E("open s0 %s" % proto)
    if density is None:
        density = rng.choice([0.25, 0.5, 1.0, 1.0])
    statey = proto in ("req0", "surveyor0", "rep0", "respondent0")     # a probe is a protocol step there
    st = None
    if proto == "surveyor0":
        st = rng.choice([5000, 60000, 60000])
        E("setopt s0 surveyor:survey-time ms %d" % st)
    resend = None
    if proto == "req0":
        resend = rng.choice([-1, -1, 5000, 60000])
        E("setopt s0 req:resend-time ms %d" % resend)

    def sent_one():
        g.ticks.append(g.now + 1000)
        if proto == "surveyor0":
            g.deadlines.append(g.now + st)
        if proto == "req0" and resend and resend > 0:
            g.deadlines.extend(g.now + resend * k for k in range(1, 6))

    for o in buf_opts(proto):
        if rng.random() < 0.5:
            E("setopt s0 %s int %d" % (o, rng.choice(BUFS)))
    if proto == "sub0" and rng.random() < 0.9:
        E("setopt s0 topic sub %s" % rng.choice(["-", "61", "6162"]))
    if d["ctx"]:
        for _ in range(rng.choice([0, 0, 1, 2])):
            c = "c%d" % g.nctx; g.nctx += 1
            E("ctx %s s0" % c); g.ctxs.append(c)
            if proto == "sub0" and rng.random() < 0.8:
                E("setopt %s topic sub %s" % (c, rng.choice(["-", "61", "62"])))
    n = nops if nops is not None else rng.randrange(6, 45)
    # how eagerly the transport completes sends: lazy transports keep pipes busy and queues full
    eager = rng.choice([0.05, 0.14, 0.14, 0.3])
    for _ in range(n):
        r = rng.random()
        before = len(g.L)
        ops = g.open_pipes()
        if r < 0.10 and g.npipes < 4:
            E("conn s0 %d" % (d["peer"] if rng.random() < 0.92 else rng.choice([d["peer"] ^ 1, 0, 65535])))
            g.npipes += 1
        elif r < 0.32 and ops:
            # arrivals prefer busy pipes half of the time (a reply path that has to wait)
            bp = g.busy_pipes()
            p = rng.choice(bp) if (bp and rng.random() < 0.5) else rng.choice(ops)
            E("inject p%d %s" % (p, g.wire() or "-"))
        elif r < 0.32 + eager and g.npipes:
            bp = g.busy_pipes()
            p = rng.choice(bp) if (bp and rng.random() < 0.8) else rng.randrange(g.npipes)
            E("sent p%d%s" % (p, " 31" if rng.random() < 0.04 else ""))
        elif r < 0.58:
            t = g.tgt()
            h, b = g.send_args()
            if rng.random() < 0.5 and g.naio < 58:
                E("send %s %s %s %s" % (t, g.aio(), h, b))
            else:
                E("sendnb %s %s %s" % (t, h, b))
            if d["send"]:
                sent_one()
        elif r < 0.70:
            t = g.tgt()
            if rng.random() < 0.5 and g.naio < 58:
                E("recv %s %s" % (t, g.aio()))
            else:
                E("recvnb %s" % t)
        elif r < 0.74 and ops:
            E("drop p%d" % rng.choice(ops))
        elif r < 0.80 and g.naio:
            E("cancel a%d" % rng.randrange(g.naio))
        elif r < 0.88:
            q = rng.random()
            if q < 0.70 and buf_opts(proto):
                E("setopt s0 %s int %d" % (rng.choice(buf_opts(proto)), rng.choice(BUFS + ([8193] if rng.random() < 0.05 else []))))
            elif q < 0.85 and proto in ("pair1", "pair1_raw", "rep0", "rep0_raw", "respondent0", "respondent0_raw"):
                t = rng.choice([1, 2, 3, 8, 15])
                E("setopt s0 ttl-max int %d" % t); g.ttl = t
            elif proto == "sub0":
                t = g.tgt()
                E("setopt %s topic %s %s" % (t, rng.choice(["sub", "unsub"]), rng.choice(["-", "61", "6162", "62"])))
            else:
                E("poll")
        elif r < 0.92 and d["ctx"]:
            if g.ctxs and rng.random() < 0.4:
                c = g.ctxs.pop(rng.randrange(len(g.ctxs)))
                E("ctxclose %s" % c)
            elif g.nctx < 6:
                c = "c%d" % g.nctx; g.nctx += 1
                E("ctx %s s0" % c); g.ctxs.append(c)
                if proto == "sub0" and rng.random() < 0.8:
                    E("setopt %s topic sub %s" % (c, rng.choice(["-", "61", "62"])))
        elif r < 0.96 and proto in ("req0", "surveyor0"):
            g.advance()
        else:
            E("poll")
        if len(g.L) == before:
            E("poll")
        # probes: the non-blocking operation each descriptor advertises.  A raised descriptor (as the model
        # predicts it) is probed more often than a lowered one; on the sockets where a send / receive is a step of
        # the protocol's state machine (REQ, REP, SURVEYOR, RESPONDENT) probes are rarer so that exchanges complete
        fr, fw = g.fds()
        ps = []
        for x, fd in (("r", fr), ("w", fw)):
            pr_ = density * (1.0 if fd == "1" else 0.5 if fd == "0" else 0.15)
            if statey:
                pr_ *= 0.5 if fd == "1" else 0.2
            if rng.random() < pr_:
                ps.append(x)
        rng.shuffle(ps)
        for x in ps:
            if x == "r":
                E("recvnb s0")
            else:
                h, b = g.send_args(valid=rng.random() < 0.9)
                E("sendnb s0 %s %s" % (h, "cc%04x" % g.nmsg))
                if d["send"]:
                    sent_one()
    return g.L


def gen_resize_case(rng, proto, sess):
    """directed: buffer resizes at the boundary -- every buffer option of the protocol walked through 0 / 1 / 2 / 0 ...
    while the peer connection is idle, busy (a send in flight at the transport), and holding queued messages, each
    resize followed by a poll and by the non-blocking operation the descriptor advertises (a resize recomputes the
    descriptor in pairX_set_*_buf_len, push0_set_send_buf_len, nni_msgq_resize, ...)"""
    g = Gen(rng, proto, sess)
    d = g.d
    E = g.emit
    E("open s0 %s" % proto)
    opts = buf_opts(proto)
    if not opts:
        return None
    for _ in range(rng.choice([1, 1, 2])):
        E("conn s0 %d" % d["peer"]); g.npipes += 1
    E("poll")

    def probe():
        for x in rng.sample(["r", "w"], 2):
            if x == "r" and d["recv"] and rng.random() < 0.6:
                E("recvnb s0")
            elif x == "w" and d["send"] and rng.random() < 0.8:
                h, b = g.send_args(valid=True)
                E("sendnb s0 %s %s" % (h, b))

    for phase in range(rng.choice([2, 3, 4])):
        for v in rng.choice([[0, 1, 0], [0, 2, 1, 0], [1, 0, 2], [2, 0], [0]]):
            E("setopt s0 %s int %d" % (rng.choice(opts), v))
            E("poll")
            probe()
        r = rng.random()
        ops = g.open_pipes()
        if r < 0.35 and ops and d["recv"]:
            for _ in range(rng.choice([1, 2, 3])):
                E("inject p%d %s" % (rng.choice(ops), g.wire() or "-"))
        elif r < 0.75 and g.npipes:
            for _ in range(rng.choice([1, 2])):
                E("sent p%d" % rng.randrange(g.npipes))
        elif d["send"]:
            h, b = g.send_args(valid=True)
            E("send s0 %s %s %s" % (g.aio(), h, b))
    for _ in range(3):
        for q in range(g.npipes):
            E("sent p%d" % q)
    E("poll")
    return g.L


# ---------------------------------------------------------------- the oracle (implementation's observations only)
class Stats:
    def __init__(self):
        self.states = {}    # proto -> {"rw": count}
        self.probes = {}    # proto -> {"recv fd=1 rv=0": count}
        self.known = {}     # key -> (count, first case, op index)
        self.trans = {}     # proto -> number of descriptor changes seen

    def state(self, proto, rw):
        d = self.states.setdefault(proto, {})
        d[rw] = d.get(rw, 0) + 1

    def probe(self, proto, what):
        d = self.probes.setdefault(proto, {})
        d[what] = d.get(what, 0) + 1

    def hit(self, key, case, k):
        c = self.known.get(key)
        self.known[key] = (c[0] + 1, c[1], c[2]) if c else (1, case, k)


STATS = Stats()
ERRNAME = {0: "ok", 8: "EAGAIN", 9: "ENOTSUP", 11: "ESTATE", 13: "EPROTO", 7: "ECLOSED", 2: "ENOMEM", 19: "ECONNRESET", 5: "ETIMEDOUT", 3: "EINVAL"}


def oracle(case, obs, raw, stats=None):
    """C15's words on the library's own observations.  Returns (op index, text[, key]) or None."""
    proto = case[0].split()[2]
    pend = {}          # aio -> (op index, "send"/"recv", fd char before)
    prev = None
    for k, line in enumerate(case):
        t = line.split()
        o = obs[k] if k < len(obs) else None
        if o is None:
            return (k, "no observation (driver stopped)")
        op = t[0]
        fds = prev["poll"].get(0) if prev else None
        if op in ("sendnb", "recvnb") and t[1] == "s0" and fds is not None:
            fd = fds[0] if op == "recvnb" else fds[1]
            rv = o["rv"]
            dirn = "receive" if op == "recvnb" else "send"
            if fd == "x":
                if rv != 9:
                    return (k, "the socket has no %s descriptor but the NONBLOCK %s returned %d, not NNG_ENOTSUP" % (dirn, dirn, rv))
            elif fd == "1" and rv == 8:
                key = None
                if proto.startswith("bus0") and op == "sendnb":
                    key = KEY_BUS
                if proto == "respondent0" and op == "sendnb":
                    key = KEY_RESP
                return (k, "%s descriptor polls readable but the NONBLOCK %s returned NNG_EAGAIN (busy loop)" % (dirn, dirn), key)
            elif fd == "0" and rv == 0:
                return (k, "NONBLOCK %s succeeded although the %s descriptor did not poll readable (missed wake-up)" % (dirn, dirn))
            # NONBLOCK must not change readiness when it fails with EAGAIN (it did nothing) -- except that a
            # refused cooked REQ send has cancelled the previous request (as coded; the message stays with the caller)
            if rv == 8 and o["poll"].get(0) is not None and o["poll"].get(0) != fds:
                key = KEY_RESP if (proto == "respondent0" and op == "sendnb") else None
                if not (proto == "req0" and op == "sendnb"):
                    return (k, "a NONBLOCK %s that returned NNG_EAGAIN changed the descriptors from %s to %s" % (dirn, "".join(fds), "".join(o["poll"][0])), key)
        if op in ("sendnb", "recvnb") and o["rv"] == -1:
            return (k, "a NONBLOCK operation did not complete at once")
        if op in ("sendnb", "recvnb") and o["rv"] == 5:
            return (k, "a NONBLOCK operation returned NNG_ETIMEDOUT (a refused NONBLOCK operation must report NNG_EAGAIN)")
        if op in ("send", "recv") and t[1] == "s0" and o["rv"] == 0 and fds is not None:
            a = int(t[2][1:])
            fd = fds[0] if op == "recv" else fds[1]
            done = [x for x in o["done"] if x[0] == a]
            dirn = "receive" if op == "recv" else "send"
            if fd == "1" and not done:
                key = None
                return (k, "%s descriptor polls readable but a %s had to wait (the NONBLOCK form would return NNG_EAGAIN)" % (dirn, dirn), key)
            if fd == "0" and done and done[0][1] == 0:
                key = KEY_RESP if (proto == "respondent0" and op == "send") else None
                return (k, "a %s completed at once although the %s descriptor did not poll readable (missed wake-up)" % (dirn, dirn), key)
        for a, rv, extra in o["done"]:
            if extra == "LOST":
                return (k, "a failed send did not leave the message with the caller")
        prev = o
    return None


# ---------------------------------------------------------------- running
def run_batch(impl, model, batch):
    # a NONBLOCK call that blocks for good stops the driver: the batch times out and is reported as a hang
    iout, crash = run_cases(impl, batch, timeout=20 + 4 * len(batch))
    mout, mcrash = run_cases(model, batch, timeout=20 + 4 * len(batch))
    return iout, crash, mout, mcrash


def judge(case, lines, stats):
    parsed = [parse_line(x) for x in lines]
    if any("NOT-QUIESCENT" in x for x in lines):
        return (0, "library did not become quiescent within 10 s")
    if stats is not None:
        collect(case, parsed, stats)
    return oracle_known_aware(case, parsed, stats)


def collect(case, parsed, stats):
    """descriptor states at every quiescent point and the outcome of every socket-level operation against them"""
    proto = case[0].split()[2]
    prev = None
    for k, line in enumerate(case):
        o = parsed[k] if k < len(parsed) else None
        if o is None:
            break
        t = line.split()
        fds = prev["poll"].get(0) if prev else None
        if t[0] in ("sendnb", "recvnb") and t[1] == "s0" and fds is not None:
            fd = fds[0] if t[0] == "recvnb" else fds[1]
            stats.probe(proto, "%s fd=%s rv=%s" % ("recv" if t[0] == "recvnb" else "send", fd, ERRNAME.get(o["rv"], o["rv"])))
        if t[0] in ("send", "recv") and t[1] == "s0" and o["rv"] == 0 and fds is not None:
            a = int(t[2][1:])
            fd = fds[0] if t[0] == "recv" else fds[1]
            done = [x for x in o["done"] if x[0] == a]
            stats.probe(proto, "blocking-%s fd=%s %s" % (t[0], fd, ("rv=%s" % ERRNAME.get(done[0][1], done[0][1])) if done else "queued"))
        if o["poll"].get(0) is not None:
            stats.state(proto, "".join(o["poll"][0]))
            if prev is not None and prev["poll"].get(0) is not None and prev["poll"][0] != o["poll"][0]:
                stats.trans[proto] = stats.trans.get(proto, 0) + 1
        prev = o


def oracle_known_aware(case, parsed, stats):
    """first finding that is not a recorded one; recorded ones are counted in STATS.known"""
    k0 = 0
    first = True
    while True:
        r = oracle(case, parsed, None, stats if first else None) if k0 == 0 else oracle_from(case, parsed, k0)
        first = False
        if r is None:
            return None
        if len(r) > 2 and r[2] is not None:
            STATS.hit(r[2], case, r[0])
            k0 = r[0] + 1
            if k0 >= len(case):
                return None
            continue
        return (r[0], r[1])


def oracle_from(case, parsed, k0):
    """the oracle restarted at line k0 (descriptor state of line k0-1 kept)"""
    sub_case = [case[0]] + case[k0:]
    sub_obs = [parsed[k0 - 1]] + parsed[k0:]
    r = oracle(sub_case, sub_obs, None, None)
    if r is None:
        return None
    return (r[0] + k0 - 1,) + tuple(r[1:])


def pollable_cases(rng, n):
    cases = []
    for _ in range(n):
        L = ["new"]
        for _ in range(rng.randrange(1, 14)):
            L.append(rng.choice(["raise", "clear", "raise", "clear", "getfd", "poll"]))
        L.append("getfd")
        L.append(rng.choice(["raise", "clear"]))
        L.append("poll")
        cases.append(L)
    return cases


def pollable_oracle(case, lines):
    """the descriptor, once handed out, is readable exactly when the last raise/clear was a raise"""
    level, have = False, False
    for k, l in enumerate(case):
        if l == "new":
            level, have = False, False
        elif l == "raise":
            level = True
        elif l == "clear":
            level = False
        elif l == "getfd":
            have = True
        want = "fd=%s" % (("1" if level else "0") if have else "x")
        if k >= len(lines) or lines[k] != want:
            return (k, "pollable: after %s the descriptor shows %s, the flag says %s" % (" ".join(case[:k + 1][-6:]), lines[k] if k < len(lines) else None, want))
    return None


def run(tier, seed, replay=None):
    rep = Report("C15", tier, seed)
    assume = os.environ.get("C15_ASSUME_KNOWN", "")
    for key in assume.split(","):
        if key:
            rep.known.setdefault(key, "(assumed known: C15_ASSUME_KNOWN) " + KNOWN_TEXT.get(key, key))
    global STATS
    STATS = Stats()
    for f in os.listdir(rep.outdir):
        if f.endswith(".case") or f.endswith(".txt"):
            os.remove(os.path.join(rep.outdir, f))
    import time as _t
    t0 = _t.time()
    phases = rep.cov.setdefault("phase_seconds", {})
    proof_ok, cb, bdir, why = std_prelude(rep, "C15", "Properties_C15", "c15", drivers=("c15",))
    phases["prelude (gen_consts, coq build + Print Assumptions, extraction, nng build; includes waiting for other checks' locks)"] = round(_t.time() - t0, 1)
    if bdir is None:
        return rep.finish()
    impl, err = wb_build(bdir, "wb_proto.c")
    if impl is None:
        p = rep.replay_file("wb_proto_build.txt", err)
        rep.violation(p, "protocol driver does not build against the current tree (correspondence broken)", nofail=True)
        return rep.finish()
    model = model_bin("modeld_c15")
    rc, out, _ = run_prog(model, "", args=["--flags"])
    rep.cov["repairs_in_source"] = out[0].strip() if out else "?"
    rng = random.Random(seed)
    protos = [p for p in P]
    only = os.environ.get("C15_ONLY")
    if only:
        protos = [p for p in protos if p in only.split(",")]
    if replay:
        cases = [[l.strip() for l in open(replay) if l.strip() and not l.startswith("#")]]
        by_proto = {cases[0][0].split()[2]: cases}
    else:
        per = int(os.environ.get("C15_PER", "0")) or (40 if tier == "quick" else 4500)
        by_proto = {}
        for c in load_corpus("C15"):
            by_proto.setdefault(c[0].split()[2], []).append(c)
        sess = Session(model)
        for pr in protos:
            n = per // 3 if pr in ALIAS else per
            r2 = random.Random(rng.randrange(1 << 30))
            by_proto.setdefault(pr, [])
            for i in range(n):
                by_proto[pr].append(gen_case(r2, pr, sess))
            # directed resize-boundary scripts (stateless protocols only: on REQ/REP/SURVEY a probe is a protocol step)
            if pr not in ("req0", "rep0", "surveyor0", "respondent0"):
                r3 = random.Random(rng.randrange(1 << 30))
                for i in range((6 if tier == "quick" else 300) // (3 if pr in ALIAS else 1)):
                    c = gen_resize_case(r3, pr, sess)
                    if c:
                        by_proto[pr].append(c)
        sess.close()
    phases["generation (model-guided)"] = round(_t.time() - t0, 1)
    # batches, run on at most 6 driver pairs at a time
    B = 40 if tier == "quick" else 100
    jobs = []
    for pr, cs in by_proto.items():
        for b0 in range(0, len(cs), B):
            jobs.append((pr, b0, cs[b0:b0 + B]))
    rng.shuffle(jobs)
    hist = rep.cov.setdefault("op_histogram", {})
    diverged = []
    distinct = set()
    ncases = 0

    def spec_fails(c):
        o, crash = run_cases(impl, [c], timeout=120)
        if crash is not None:
            return True
        r = oracle_known_aware(c, [parse_line(x) for x in o[0]], None) if not any("NOT-QUIESCENT" in x for x in o[0]) else (0, "nq")
        return r is not None

    saved_known = None
    with ThreadPoolExecutor(max_workers=6) as ex:
        futs = [(pr, b0, batch, ex.submit(run_batch, impl, model, batch)) for pr, b0, batch in jobs]
        for pr, b0, batch, f in futs:
            iout, crash, mout, mcrash = f.result()
            if crash:
                ci, rc, errtxt = crash
                small = batch[ci]
                try:
                    small = batch[ci][:1] + ddmin(batch[ci][1:], lambda c: run_cases(impl, [batch[ci][:1] + c], timeout=60)[1] is not None, max_iter=60)
                except Exception:
                    pass
                p = rep.replay_file("crash_%s_%d.case" % (pr, b0 + ci), "# implementation crashed or hung (rc=%s)\n# %s\n" % (rc, errtxt.replace("\n", "\n# ")) + "\n".join(small) + "\n")
                rep.violation(p, "%s: implementation crashed / hung / sanitizer report (rc=%s): %s" % (pr, rc, san_summary(errtxt)))
                continue
            for ci, case in enumerate(batch):
                ncases += 1
                rep.cov["evaluations"] += len(case)
                for l in case:
                    hist[l.split()[0]] = hist.get(l.split()[0], 0) + 1
                bad = judge(case, iout[ci], STATS)
                distinct.add(hash(tuple(case)))
                if bad:
                    k, text = bad
                    small = case
                    if len(rep.violations) < 3:
                        keep = dict(STATS.known)
                        try:
                            small = case[:1] + ddmin(case[1:], lambda c: spec_fails(case[:1] + c), max_iter=200)
                        except Exception:
                            pass
                        STATS.known = keep
                    p = rep.replay_file("spec_%s_%d.case" % (pr, b0 + ci), "# %s at op %d (%s)\n" % (text, k, case[min(k, len(case) - 1)]) + "\n".join(small) + "\n")
                    rep.violation(p, "%s: %s (op %d: %s)" % (pr, text, k, case[min(k, len(case) - 1)][:100]))
                    continue
                for k, line in enumerate(case):
                    io = iout[ci][k] if k < len(iout[ci]) else None
                    mo = mout[ci][k] if k < len(mout[ci]) else None
                    if io != mo:
                        diverged.append((pr, b0 + ci, k, line, io, mo, case))
                        break
    if diverged and not rep.violations:
        pr, ci, k, line, io, mo, case = diverged[0]
        p = rep.replay_file("diverge_%s_%d.case" % (pr, ci), "# model and implementation differ at op %d: %s\n# impl : %s\n# model: %s\n# (%d cases diverge; the spec oracle found no violation)\n" % (k, line, io, mo, len(diverged)) + "\n".join(case) + "\n")
        rep.violation(p, "correspondence protocol model<->code broken on %d cases (%s); first: %s op %r\n impl =%r\n model=%r" % (len(diverged), ",".join(sorted({d[0] for d in diverged})), pr, line, io, mo), nofail=True)
    phases["protocol runs + oracle + comparison"] = round(_t.time() - t0, 1)
    # recorded findings met on the way
    for key, (cnt, case, k) in sorted(STATS.known.items()):
        small = [l for l in case[:k + 1]]
        p = rep.replay_file("known_%s.case" % key, "# %s\n# %d occurrences in this run; first at op %d: %s\n" % (KNOWN_TEXT.get(key, key), cnt, k, case[k]) + "\n".join(small) + "\n")
        rep.violation(p, "%s (%d occurrences; first: %s)" % (KNOWN_TEXT.get(key, key), cnt, case[k]), key=key)
    # ---- pollable.c, white box
    pimpl, perr = wb_build(bdir, "wb_c15.c")
    if pimpl is None:
        p = rep.replay_file("wb_c15_build.txt", perr)
        rep.violation(p, "pollable driver does not build against the current tree (correspondence broken)", nofail=True)
    elif not replay:
        pc = pollable_cases(random.Random(seed + 7), 300 if tier == "quick" else 20000)
        iout, crash = run_cases(pimpl, pc, timeout=300)
        mout, mcrash = run_cases(model, pc, timeout=300, args=["--pollable"])
        pbad = 0
        for ci, c in enumerate(pc):
            rep.cov["evaluations"] += len(c)
            b = pollable_oracle(c, iout[ci]) if not crash else (0, "pollable driver crashed: %s" % san_summary(crash[2]))
            if b and not pbad:
                pbad += 1
                p = rep.replay_file("pollable_%d.case" % ci, "# %s\n" % b[1] + "\n".join(c) + "\n")
                rep.violation(p, b[1])
            elif iout[ci] != mout[ci] and not pbad:
                pbad += 1
                p = rep.replay_file("pollable_diverge_%d.case" % ci, "# impl %s\n# model %s\n" % (iout[ci], mout[ci]) + "\n".join(c) + "\n")
                rep.violation(p, "pollable.c and its model differ on %s" % " ".join(c), nofail=True)
        # the first-getfd / clear window, forced (the interleaving of plb_concurrent_clear_refuted)
        rc, wout, werr = run_prog(pimpl, "window clear\nwindow raise\n", timeout=60)
        rc2, wmod, _ = run_prog(model, "window clear\nwindow raise\n", timeout=60, args=["--pollable"])
        rep.cov["pollable_window"] = {"impl": wout, "model": wmod}
        if len(wout) != 2 or rc != 0:
            p = rep.replay_file("pollable_window.txt", "\n".join(wout) + "\n" + (werr or ""))
            rep.violation(p, "pollable driver failed on the window commands (rc=%s)" % rc, nofail=True)
        else:
            for l in wout:
                m = re.match(r"window fd=(\d) flag=(\d)(?: after-clear fd=(\d))?$", l)
                if not m or m.group(1) != m.group(2) or (m.group(3) is not None and m.group(3) != "0"):
                    p = rep.replay_file("pollable_window.case", "# %s\n# harness/wb_c15.c: a complete nni_pollable_clear between getfd's load of p_raised and its write\nwindow clear\n" % l)
                    rep.violation(p, PLB_TEXT + " -- observed: " + l)
                    break
            if wout != wmod and not rep.violations:
                p = rep.replay_file("pollable_window_diverge.txt", "impl  %s\nmodel %s\n" % (wout, wmod))
                rep.violation(p, "pollable.c and its interleaving model differ on the forced window: impl %s model %s" % (wout, wmod), nofail=True)
        # the buffer API on real sockets (nng_send / nng_recv with NNG_FLAG_NONBLOCK, inproc, real threads)
        apis = []
        for _ in range(3 if tier == "quick" else 50):
            rc, aout, aerr = run_prog(pimpl, "api\n", timeout=60)
            m = re.match(r"api send0=(-?\d+) recv0=(-?\d+) send1=(-?\d+) send2=(-?\d+) polled=(\d) recv1=(-?\d+) len=(-?\d+) fd_after=(-?\d+) max_nb_us=(\d+)", aout[0]) if aout else None
            if rc != 0 or not m:
                p = rep.replay_file("api.txt", "\n".join(aout) + "\n" + (aerr or "")[-2000:])
                rep.violation(p, "buffer-API probe crashed or leaked (rc=%s): %s" % (rc, san_summary(aerr)))
                break
            v = [int(x) for x in m.groups()]
            apis.append(v)
            bad = None
            if v[0] != 8 or v[1] != 8:
                bad = "nng_send / nng_recv with NNG_FLAG_NONBLOCK on a socket that can neither send nor receive returned %d / %d, not NNG_EAGAIN" % (v[0], v[1])
            elif v[2] != 0 or v[3] != 8:
                bad = "NONBLOCK nng_send with one buffer slot free returned %d, the next one %d (expected 0, then NNG_EAGAIN)" % (v[2], v[3])
            elif v[4] == 1 and (v[5] != 0 or v[6] != 10):
                bad = "receive descriptor polled readable but NONBLOCK nng_recv returned %d (len %d)" % (v[5], v[6])
            elif v[4] == 1 and v[7] != 0:
                bad = "receive descriptor still readable after the only message was received"
            if bad:
                p = rep.replay_file("api.case", "# %s\n# %s\napi\n" % (bad, aout[0]))
                rep.violation(p, "buffer API (wb_c15 `api`): " + bad)
                break
        rep.cov["buffer_api"] = {"runs": len(apis), "poll_timed_out (2 s, not judged)": sum(1 for v in apis if v[4] == 0),
                                 "longest NONBLOCK call in microseconds (recorded, not judged)": max([v[8] for v in apis] or [0])}
        rounds = 2000 if tier == "quick" else 200000
        rc, out, errt = run_prog(pimpl, "race %d %d\n" % (rounds, seed), timeout=600)
        m = re.match(r"race rounds=(\d+) bad=(\d+) raised_final=(\d+) created_during=(\d+)", out[0]) if out else None
        rep.cov["pollable"] = {"sequential_cases": len(pc), "race": out[0] if out else "no output (rc=%s)" % rc,
                               "note": "race = first getfd on one thread against raise/clear on another; the outcome is timing dependent and is recorded only (see Properties_C15.pollable_level_concurrent_clear_refuted)"}
    phases["pollable"] = round(_t.time() - t0, 1)
    # ---- evidence
    rep.cov["distinct_nontrivial"] += len(distinct)
    rep.cov["cases"] = ncases
    rep.cov["model_impl_divergences"] = len(diverged)
    rep.cov["descriptor_states"] = {p: dict(sorted(v.items())) for p, v in sorted(STATS.states.items())}
    rep.cov["descriptor_changes"] = dict(sorted(STATS.trans.items()))
    rep.cov["probe_outcomes"] = {p: dict(sorted(v.items())) for p, v in sorted(STATS.probes.items())}
    rep.cov["known_findings_met"] = {k: v[0] for k, v in STATS.known.items()}
    if by_proto:
        some = next(iter(by_proto.values()))
        if some:
            rep.cov["samples"] += [some[0][:16]]
    # the statements the verdict rests on must all be there
    protos18 = ["req", "rep", "xreq", "xrep", "pub", "sub", "xsub", "push", "pull", "surveyor", "respondent", "xsurveyor", "xrespondent",
                "pair0", "pair1", "pair1raw", "bus"]
    need = ["%s_c15" % p for p in protos18] + ["%s_c15_more" % p for p in protos18] + [
        "pollable_level", "pollable_level_whenever_first_requested", "pollable_level_first_getfd_racing_raise_holds",
        "pollable_level_first_getfd_racing_clear_refuted", "pollable_level_concurrent_now", "nonblock_sendmsg_never_waits_keeps_message_on_failure",
        "nonblock_recvmsg_never_waits", "nonblock_flag_matters_only_where_the_protocol_waits", "nng_send_frees_exactly_its_own_copy_on_failure",
        "c15_packs_are_the_extracted_models", "c15_table_now", "c15_consts_match"]
    missing = [t for t in need if t not in cb.get("theorems", [])]
    if proof_ok and missing:
        proof_ok, why = False, "theorems missing from Properties_C15: %s" % ", ".join(missing)
    rep.cov["clause_table"] = {
        "legend": "per protocol: nb_immediate / nb_succeeds_if_possible / poll_mirror (the property) ; strict = EAGAIN only where the blocking form queues ; exact = raised <-> would succeed ; iff = raised <-> not EAGAIN",
        "full strength incl. strict, exact, iff": ["xreq", "xrep", "pub", "sub", "xsub", "push", "pull", "xsurveyor", "xrespondent", "pair0", "pair1", "pair1raw"],
        "req": "three clauses + strict hold; exact holds under the contract 'fewer than 2^31-1 contexts' (partial without it: ENOMEM corner); iff refuted (ESTATE states, not a defect)",
        "rep": "three clauses hold (since fix ca9024c); send half of strict holds, receive half refuted (second receive on a context: EAGAIN vs ESTATE); receive half of exact holds, send half refuted (reply queued behind busy pipe + new request: raised, ESTATE); iff refuted",
        "surveyor": "three clauses + strict hold; exact refuted (expired survey with queued responses: raised, ESTATE); iff refuted",
        "respondent": "nb_immediate and the receive halves hold; nb_succeeds_if_possible and poll_mirror (send half) FALSE of the source: known finding respondent-nb-send-eagain; all three hold for the repaired form (rf_nb)",
        "bus": "nb_immediate (since fix 6932118) and the receive halves hold; nb_succeeds_if_possible and poll_mirror (send half) FALSE of the source: known finding bus-nonblock-send-eagain; everything holds for the repaired form",
        "pollable.c": "level flag for non-overlapping calls; first getfd racing raise safe; racing clear refuted for the pinned getfd, holds in every interleaving for the current one (fix 6840be2)",
    }
    if not proof_ok and not rep.violations:
        proof_broken_report(rep, cb, "C15 theorems do not check (%s)" % why)
    rep.cov["rule"] = ("for each of the 22 socket types (11 protocols, cooked and raw; 18 distinct state machines) random histories over the deterministic transport: connects with the right / wrong peer, "
                       "arriving messages (well formed for the protocol: matching / stale / unknown ids, backtraces around the TTL, hop counts, topics; and malformed ones), transport completions one at a time, "
                       "failed transport sends, peer loss, blocking and NONBLOCK sends / receives on the socket and on contexts, cancels, buffer resizes, subscribe / unsubscribe, TTL changes, context open / close, "
                       "clock steps kept 2 s away from every deadline; after each step, with a per-script density of 25/50/100 %, the NONBLOCK receive and/or send is issued on the socket; both descriptors are polled "
                       "(poll(2), zero timeout) at every quiescent point; oracle on the library's own observations: raised => the NONBLOCK operation does not return EAGAIN and a blocking one does not wait; "
                       "succeeds (NONBLOCK, or blocking at once) => was raised; EAGAIN changes no descriptor; no descriptor => ENOTSUP; failed sends keep their message; then line-by-line comparison with the extracted models; "
                       "pollable.c: random raise/clear/getfd sequences white-box against its model and the level flag. non-trivial = every script (each has probes); distinct = distinct scripts")
    rep.cov["real_time"] = "timers run on the virtual clock (hook H4); scripts keep 2 s between the clock and every deadline; latency of calls is not judged"
    return rep.finish()
